package rules

import (
	"fmt"
	"go/ast"
	"go/token"
	"go/types"
	"sort"
	"strings"
)

// Link-write discipline of the search tree, second engine (C17).
//
// The functions of package helper that store into tree links are interpreted path by path over
// symbolic node names: a variable holds an access path ("n", "n.right", "b.root", the results
// "m1"/"q1" of a verified search loop, "new1" for a freshly allocated node), conditions become
// propositional facts over equalities of such paths, unexported non-recursive callees are
// inlined with their arguments, loops are entered once from an arbitrary state of the variables
// they assign. At every store the same obligation as before is decided on every truth assignment
// the facts of that path allow:
//
//   attach   L = new        L is nil
//   splice   L = N.g        L points at N and N's other child is nil
//   replace  N.value = M.value   M is the in-order neighbour of N found by a verified search
//                                below N, and M is spliced out on the same path
//
// A recursive splicing function (recv *Bst) f(n, p *BstNode) is analysed once under the
// precondition "root, p.left or p.right points at n", which every call of it must establish.
// The interpretation is independent of how the code is cut into helpers, of recursion versus
// re-assignment of (node, parent), and of pointer-to-link variables.

type pfact func(w map[string]bool) bool

type finderProv struct {
	start string
	links map[string]bool
}

type copyRec struct {
	src string
	pos token.Pos
	fn  string
}

type pstate struct {
	val     map[types.Object]string
	facts   []pfact
	atoms   map[string]bool
	stale   token.Pos // position of an earlier change of the tree on this path
	spliced map[string]bool
	copies  []copyRec
	finder  map[string]finderProv
	stack   []*types.Func
	created int // nodes allocated on this path
	attach  int // new nodes stored into a link on this path
	changes int // stores into the tree (links, root, values) and calls of the splicing contract
}

func (s *pstate) clone() *pstate {
	n := &pstate{val: map[types.Object]string{}, atoms: map[string]bool{}, spliced: map[string]bool{}, finder: map[string]finderProv{}, stale: s.stale, created: s.created, attach: s.attach, changes: s.changes}
	for k, v := range s.val {
		n.val[k] = v
	}
	for k := range s.atoms {
		n.atoms[k] = true
	}
	for k := range s.spliced {
		n.spliced[k] = true
	}
	for k, v := range s.finder {
		n.finder[k] = v
	}
	n.facts = append([]pfact{}, s.facts...)
	n.copies = append([]copyRec{}, s.copies...)
	n.stack = append([]*types.Func{}, s.stack...)
	return n
}

type pathEngine struct {
	c              *Ctx
	info           *types.Info
	decls          map[*types.Func]*ast.FuncDecl
	writers        map[*types.Func]bool
	recursive      map[*types.Func]bool
	callers        map[*types.Func]int
	nfresh         int
	writes         map[token.Pos]bool
	calls          map[token.Pos]bool
	paths          int
	reported       map[string]bool
	curFn          []string
	budget         int
	hints          []string // names of the variables a finder's results are assigned to (for messages)
	rootPos        token.Pos
	rootSplices    bool // the root being interpreted is the recursive unlinking function
	attachedAtRoot bool // some path of the root being interpreted stores a new node into the tree's root
	sawCreate      bool
}

func (pe *pathEngine) fresh(prefix string) string {
	pe.nfresh++
	return fmt.Sprintf("%s%d", prefix, pe.nfresh)
}

func (pe *pathEngine) violate(site, detail string, pos token.Pos, msg string) {
	key := site + "|" + detail + "|" + pe.c.P.Pos(pos)
	if pe.reported[key] {
		return
	}
	pe.reported[key] = true
	pe.c.violate("bst-links", site, detail, pos, msg)
}

func (pe *pathEngine) site() string {
	if len(pe.curFn) == 0 {
		return "helper"
	}
	return "helper." + pe.curFn[len(pe.curFn)-1]
}

// isLinkType: *BstNode; isLinkPtr: **BstNode.
func isLinkPtr(t types.Type) bool {
	p, ok := t.(*types.Pointer)
	return ok && isNodePtr(p.Elem())
}

func (pe *pathEngine) isLinkField(sel *ast.SelectorExpr) bool {
	tx, ts := pe.info.TypeOf(sel.X), pe.info.TypeOf(sel)
	if tx == nil || ts == nil {
		return false
	}
	n := helperNamed(tx)
	if (n != "BstNode" && n != "Bst") || !isNodePtr(ts) {
		return false
	}
	_, isField := pe.info.ObjectOf(sel.Sel).(*types.Var)
	return isField
}

func (pe *pathEngine) isValueField(sel *ast.SelectorExpr) bool {
	tx := pe.info.TypeOf(sel.X)
	return tx != nil && helperNamed(tx) == "BstNode" && !pe.isLinkField(sel) && sel.Sel.Name == bstF.value
}

// symOf: the access path an expression denotes in the state.
func (pe *pathEngine) symOf(st *pstate, e ast.Expr) (string, bool) {
	switch x := e.(type) {
	case *ast.ParenExpr:
		return pe.symOf(st, x.X)
	case *ast.Ident:
		if x.Name == "nil" {
			return "nil", true
		}
		obj := pe.info.ObjectOf(x)
		if v, ok := st.val[obj]; ok {
			return v, true
		}
		if _, isVar := obj.(*types.Var); isVar {
			return x.Name, true
		}
	case *ast.SelectorExpr:
		if pe.isLinkField(x) || pe.isValueField(x) {
			if b, ok := pe.symOf(st, x.X); ok {
				return b + "." + x.Sel.Name, true
			}
		}
	case *ast.StarExpr:
		if v, ok := pe.symOf(st, x.X); ok {
			if strings.HasPrefix(v, "&") {
				return v[1:], true
			}
			return "*" + v, true
		}
	case *ast.UnaryExpr:
		if x.Op == token.AND {
			if v, ok := pe.symOf(st, x.X); ok {
				return "&" + v, true
			}
		}
	}
	return "", false
}

func symEq(a, b string) string {
	if a == b {
		return "true"
	}
	return eqKey(a, b)
}

func atomVal(w map[string]bool, k string) bool {
	if k == "true" {
		return true
	}
	return w[k]
}

// cond: the fact a condition contributes, atoms registered in the state.
func (pe *pathEngine) cond(st *pstate, e ast.Expr) pfact {
	switch x := e.(type) {
	case *ast.ParenExpr:
		return pe.cond(st, x.X)
	case *ast.UnaryExpr:
		if x.Op == token.NOT {
			f := pe.cond(st, x.X)
			return func(w map[string]bool) bool { return !f(w) }
		}
	case *ast.BinaryExpr:
		switch x.Op {
		case token.LAND:
			a, b := pe.cond(st, x.X), pe.cond(st, x.Y)
			return func(w map[string]bool) bool { return a(w) && b(w) }
		case token.LOR:
			a, b := pe.cond(st, x.X), pe.cond(st, x.Y)
			return func(w map[string]bool) bool { return a(w) || b(w) }
		case token.EQL, token.NEQ:
			tx := pe.info.TypeOf(x.X)
			ty := pe.info.TypeOf(x.Y)
			ptr := (tx != nil && (isNodePtr(tx) || isLinkPtr(tx))) || (ty != nil && (isNodePtr(ty) || isLinkPtr(ty)))
			if ptr {
				a, ok1 := pe.symOf(st, x.X)
				b, ok2 := pe.symOf(st, x.Y)
				if ok1 && ok2 {
					k := symEq(a, b)
					if k != "true" {
						st.atoms[k] = true
					}
					neg := x.Op == token.NEQ
					return func(w map[string]bool) bool { return atomVal(w, k) != neg }
				}
			}
		}
	}
	// anything else: an uninterpreted atom of its own (one per evaluation site)
	k := exprString(e) + "@" + pe.c.P.Pos(e.Pos())
	st.atoms[k] = true
	return func(w map[string]bool) bool { return w[k] }
}

// worlds runs f on every truth assignment over the atoms (plus extra) that satisfies the facts.
func (pe *pathEngine) worlds(st *pstate, extra []string, f func(w map[string]bool, keys []string)) bool {
	all := map[string]bool{}
	for k := range st.atoms {
		all[k] = true
	}
	for _, k := range extra {
		if k != "true" {
			all[k] = true
		}
	}
	keys := sortedKeys(all)
	if len(keys) > 18 {
		return false
	}
	enumWorlds(keys, func(w map[string]bool) bool {
		for _, ft := range st.facts {
			if !ft(w) {
				return false
			}
		}
		return true
	}, func(w map[string]bool) { f(w, keys) })
	return true
}

// mustHold: the atom is true in every world of the state; otherwise a world where it is false.
func (pe *pathEngine) mustHold(st *pstate, atom string) (bool, string) {
	if atom == "true" {
		return true, ""
	}
	bad := ""
	ok := pe.worlds(st, []string{atom}, func(w map[string]bool, keys []string) {
		if !w[atom] && bad == "" {
			bad = worldText(w, keys)
		}
	})
	if !ok {
		return false, "too many conditions on this path"
	}
	return bad == "", bad
}

func (pe *pathEngine) feasible(st *pstate) bool {
	any := false
	if !pe.worlds(st, nil, func(map[string]bool, []string) { any = true }) {
		return true
	}
	return any
}

type retK func(st *pstate, results []string)

// exec interprets a statement list; next continues after it, ret receives returns, brk/cont leave loops.
type conts struct {
	ret  retK
	brk  func(st *pstate)
	cont func(st *pstate)
}

func (pe *pathEngine) exec(st *pstate, list []ast.Stmt, k conts, next func(st *pstate)) {
	pe.budget--
	if pe.budget <= 0 {
		if pe.budget == 0 {
			pe.violate(pe.site(), "budget", token.NoPos, "too many paths through the tree-changing functions (undecided, fails closed)")
		}
		return
	}
	if len(list) == 0 {
		next(st)
		return
	}
	s, rest := list[0], list[1:]
	after := func(st2 *pstate) { pe.exec(st2, rest, k, next) }
	switch x := s.(type) {
	case *ast.BlockStmt:
		pe.exec(st, x.List, k, after)
	case *ast.DeclStmt:
		if gd, ok := x.Decl.(*ast.GenDecl); ok {
			for _, sp := range gd.Specs {
				if vs, ok := sp.(*ast.ValueSpec); ok {
					for i, nm := range vs.Names {
						if i < len(vs.Values) {
							if v, ok := pe.symOf(st, vs.Values[i]); ok {
								st.val[pe.info.ObjectOf(nm)] = v
							}
						} else if t := pe.info.TypeOf(nm); t != nil && (isNodePtr(t) || isLinkPtr(t)) {
							st.val[pe.info.ObjectOf(nm)] = "nil"
						}
					}
				}
			}
		}
		after(st)
	case *ast.IfStmt:
		if x.Init != nil {
			pe.exec(st, []ast.Stmt{x.Init, &ast.IfStmt{If: x.If, Cond: x.Cond, Body: x.Body, Else: x.Else}}, k, after)
			return
		}
		thenSt := st.clone()
		f := pe.cond(thenSt, x.Cond)
		elseSt := thenSt.clone()
		thenSt.facts = append(thenSt.facts, f)
		elseSt.facts = append(elseSt.facts, func(w map[string]bool) bool { return !f(w) })
		if pe.feasible(thenSt) {
			pe.exec(thenSt, x.Body.List, k, after)
		}
		if pe.feasible(elseSt) {
			if x.Else != nil {
				pe.exec(elseSt, []ast.Stmt{x.Else}, k, after)
			} else {
				after(elseSt)
			}
		}
	case *ast.ReturnStmt:
		pe.evalList(st, x.Results, func(st2 *pstate, vals []string) { k.ret(st2, vals) })
	case *ast.BranchStmt:
		switch x.Tok {
		case token.BREAK:
			if k.brk != nil {
				k.brk(st)
			}
		case token.CONTINUE:
			if k.cont != nil {
				k.cont(st)
			}
		}
	case *ast.ForStmt:
		pe.loop(st, x.Init, x.Cond, x.Post, x.Body, k, after)
	case *ast.RangeStmt:
		pe.loop(st, nil, nil, nil, x.Body, k, after)
	case *ast.ExprStmt:
		if call, ok := x.X.(*ast.CallExpr); ok {
			pe.call(st, call, func(st2 *pstate, _ []string) { after(st2) })
		} else {
			after(st)
		}
	case *ast.AssignStmt:
		pe.assign(st, x, after)
	default:
		after(st)
	}
}

// loop: the body is entered once from a state in which the variables the loop assigns are
// unknown; the path after the loop starts from such a state with the condition false.
func (pe *pathEngine) loop(st *pstate, init ast.Stmt, cond ast.Expr, post ast.Stmt, body *ast.BlockStmt, k conts, after func(*pstate)) {
	run := func(st0 *pstate) {
		assigned := map[types.Object]bool{}
		mark := func(n ast.Node) {
			ast.Inspect(n, func(m ast.Node) bool {
				switch y := m.(type) {
				case *ast.FuncLit:
					return false
				case *ast.AssignStmt:
					for _, l := range y.Lhs {
						if id, ok := l.(*ast.Ident); ok {
							assigned[pe.info.ObjectOf(id)] = true
						}
					}
				case *ast.IncDecStmt:
					if id, ok := y.X.(*ast.Ident); ok {
						assigned[pe.info.ObjectOf(id)] = true
					}
				}
				return true
			})
		}
		mark(body)
		if post != nil {
			mark(post)
		}
		havoc := func(s *pstate) {
			for o := range assigned {
				if _, had := s.val[o]; had || isTreeVar(o) {
					s.val[o] = pe.fresh("?")
				}
			}
		}
		hasBreak := hasUnlabelledBreakIn(body)
		// one iteration
		in := st0.clone()
		havoc(in)
		if cond != nil {
			in.facts = append(in.facts, pe.cond(in, cond))
		}
		// cursors: node variables the loop re-assigns and dereferences without ever testing them
		// against nil. Such a loop relies on "the cursor is not nil" at the head of every
		// iteration: it must hold on entry and be re-established by every iteration that goes on.
		var cursors []types.Object
		for o := range assigned {
			if _, had := st0.val[o]; had && isNodePtr(o.Type()) && derefsUntested(pe.info, o, cond, body) {
				cursors = append(cursors, o)
			}
		}
		sort.Slice(cursors, func(i, j int) bool { return cursors[i].Pos() < cursors[j].Pos() })
		mayBeNil := func(s *pstate, v string) bool {
			if v == "nil" {
				return true
			}
			if strings.HasPrefix(v, "new") {
				return false
			}
			atom := eqKey(v, "nil")
			bad := false
			if !pe.worlds(s, []string{atom}, func(w map[string]bool, _ []string) {
				if w[atom] {
					bad = true
				}
			}) {
				return true
			}
			return bad
		}
		for _, o := range cursors {
			if mayBeNil(st0, st0.val[o]) {
				pe.violate(pe.site(), "nil cursor: "+o.Name(), body.Pos(), fmt.Sprintf("the loop follows links from %s without testing it, and %s may be nil when the loop is entered", o.Name(), o.Name()))
			}
		}
		entryVal := map[types.Object]string{}
		if pe.feasible(in) {
			for _, o := range cursors {
				k := eqKey(in.val[o], "nil")
				in.atoms[k] = true
				in.facts = append(in.facts, func(w map[string]bool) bool { return !w[k] })
			}
			for o := range assigned {
				if v, ok := in.val[o]; ok {
					entryVal[o] = v
				}
			}
			entryChanges := in.changes
			inner := conts{ret: k.ret,
				brk: func(s *pstate) { after(s) },
				cont: func(s *pstate) {
					for _, o := range cursors {
						if mayBeNil(s, s.val[o]) {
							pe.violate(pe.site(), "nil cursor: "+o.Name(), body.Pos(), fmt.Sprintf("an iteration leaves %s = %s, which may be nil, and the next iteration follows its links without a test", o.Name(), s.val[o]))
						}
					}
					if post == nil && len(entryVal) > 0 && s.changes == entryChanges {
						same := true
						for o, v := range entryVal {
							if s.val[o] != v {
								same = false
							}
						}
						if same {
							pe.violate(pe.site(), "no progress", body.Pos(), "an iteration ends with every variable of the loop and the tree as they were when it began: the loop never ends")
						}
					}
					if s.stale != token.NoPos && s.stale != st0.stale {
						pe.violate(pe.site(), "loop after store", s.stale, "the tree is changed inside a loop that goes on afterwards: the conditions tested in later iterations are not decided (fails closed)")
					}
				}}
			pe.exec(in, body.List, inner, func(s *pstate) { inner.cont(s) })
		}
		// exit
		out := st0.clone()
		havoc(out)
		if cond != nil {
			f := pe.cond(out, cond)
			out.facts = append(out.facts, func(w map[string]bool) bool { return !f(w) })
		} else if !hasBreak {
			return // for { … } without break is left only by return
		}
		if cond != nil && pe.feasible(out) {
			after(out)
		}
	}
	if init != nil {
		pe.exec(st, []ast.Stmt{init}, k, run)
	} else {
		run(st)
	}
}

// derefsUntested: the loop selects a field of o somewhere and never compares o with nil.
func derefsUntested(info *types.Info, o types.Object, cond ast.Expr, body *ast.BlockStmt) bool {
	deref, tested := false, false
	visit := func(n ast.Node) {
		if n == nil {
			return
		}
		ast.Inspect(n, func(m ast.Node) bool {
			switch x := m.(type) {
			case *ast.FuncLit:
				return false
			case *ast.SelectorExpr:
				if id, ok := x.X.(*ast.Ident); ok && info.ObjectOf(id) == o {
					deref = true
				}
			case *ast.BinaryExpr:
				if x.Op == token.EQL || x.Op == token.NEQ {
					for _, pair := range [][2]ast.Expr{{x.X, x.Y}, {x.Y, x.X}} {
						a, aok := ast.Unparen(pair[0]).(*ast.Ident)
						b, bok := ast.Unparen(pair[1]).(*ast.Ident)
						if aok && bok && info.ObjectOf(a) == o && b.Name == "nil" {
							tested = true
						}
					}
				}
			}
			return true
		})
	}
	if cond != nil {
		visit(cond)
	}
	visit(body)
	return deref && !tested
}

func isTreeVar(o types.Object) bool {
	v, ok := o.(*types.Var)
	return ok && (isNodePtr(v.Type()) || isLinkPtr(v.Type()))
}

func hasUnlabelledBreakIn(body *ast.BlockStmt) bool {
	found := false
	var walk func(n ast.Node)
	walk = func(n ast.Node) {
		ast.Inspect(n, func(m ast.Node) bool {
			switch y := m.(type) {
			case *ast.ForStmt, *ast.RangeStmt, *ast.SwitchStmt, *ast.TypeSwitchStmt, *ast.SelectStmt, *ast.FuncLit:
				if m != n {
					return false
				}
			case *ast.BranchStmt:
				if y.Tok == token.BREAK && y.Label == nil {
					found = true
				}
			}
			return true
		})
	}
	walk(body)
	return found
}

// evalList evaluates expressions left to right, forking where a pure helper has several returns.
func (pe *pathEngine) evalList(st *pstate, es []ast.Expr, k func(st *pstate, vals []string)) {
	var rec func(st *pstate, i int, acc []string)
	rec = func(st *pstate, i int, acc []string) {
		if i == len(es) {
			k(st, acc)
			return
		}
		pe.eval(st, es[i], func(st2 *pstate, v string) { rec(st2, i+1, append(append([]string{}, acc...), v)) })
	}
	rec(st, 0, nil)
}

func (pe *pathEngine) eval(st *pstate, e ast.Expr, k func(st *pstate, v string)) {
	switch x := ast.Unparen(e).(type) {
	case *ast.CallExpr:
		pe.call(st, x, func(st2 *pstate, res []string) {
			if len(res) == 1 {
				k(st2, res[0])
			} else {
				k(st2, pe.fresh("?"))
			}
		})
		return
	case *ast.UnaryExpr:
		if x.Op == token.AND {
			if _, isLit := x.X.(*ast.CompositeLit); isLit && isNodePtr(pe.info.TypeOf(x)) {
				st.created++
				pe.sawCreate = true
				k(st, pe.fresh("new"))
				return
			}
		}
	}
	if v, ok := pe.symOf(st, e); ok {
		k(st, v)
		return
	}
	k(st, pe.fresh("?"))
}

// call: finder, inlined callee, or a contract call of a recursive splicing function.
func (pe *pathEngine) call(st *pstate, call *ast.CallExpr, k func(st *pstate, results []string)) {
	fn := callee(pe.info, call)
	if fn == nil {
		k(st, nil)
		return
	}
	fn = fn.Origin()
	fd := pe.decls[fn]
	if fd == nil {
		k(st, nil)
		return
	}
	sig := fn.Type().(*types.Signature)
	// verified search loop
	if fi := pe.c.finderOf(fn); fi != nil {
		start := "b.root"
		if !fi.startRoot {
			if fi.startArg >= len(call.Args) {
				k(st, []string{pe.fresh("?"), pe.fresh("?")})
				return
			}
			s, ok := pe.symOf(st, call.Args[fi.startArg])
			if !ok {
				s = pe.fresh("?")
			}
			start = s
		} else if sel, ok := call.Fun.(*ast.SelectorExpr); ok {
			if r, ok := pe.symOf(st, sel.X); ok {
				start = r + "." + rootFieldName(pe.info.TypeOf(sel.X))
			}
		}
		m, q := pe.fresh("m"), pe.fresh("q")
		if len(pe.hints) == 2 {
			m, q = pe.fresh(pe.hints[0]+"#"), pe.fresh(pe.hints[1]+"#")
		}
		qnil := symEq(q, "nil")
		mstart := symEq(m, start)
		st.atoms[qnil], st.atoms[mstart] = true, true
		var viaLinks []string
		for _, d := range sortedKeys(fi.links) {
			a := symEq(q+"."+d, m)
			st.atoms[a] = true
			viaLinks = append(viaLinks, a)
		}
		st.facts = append(st.facts, func(w map[string]bool) bool {
			if w[qnil] {
				return atomVal(w, mstart)
			}
			for _, a := range viaLinks {
				if w[a] {
					return true
				}
			}
			return false
		})
		if fi.exitNil != "" {
			a := symEq(m+"."+fi.exitNil, "nil")
			st.atoms[a] = true
			st.facts = append(st.facts, func(w map[string]bool) bool { return w[a] })
		}
		st.finder[m] = finderProv{start: start, links: fi.links}
		k(st, []string{m, q})
		return
	}
	onStack := false
	for _, f := range st.stack {
		if f == fn {
			onStack = true
		}
	}
	if pe.writers[fn] && (pe.recursive[fn] || onStack) {
		// contract call
		pe.calls[call.Pos()] = true
		st.changes++
		ct := pe.contract(fd)
		if ct == nil || len(call.Args) != 2 {
			pe.violate(pe.site(), "call "+fn.Name(), call.Pos(), "a recursive function that changes the tree does not have the (node, parent) form whose precondition can be stated (undecided, fails closed)")
			k(st, nil)
			return
		}
		m, ok1 := pe.symOf(st, call.Args[0])
		p, ok2 := pe.symOf(st, call.Args[1])
		if !ok1 || !ok2 {
			pe.violate(pe.site(), "call "+fn.Name(), call.Pos(), "the node and its parent passed to "+fn.Name()+" are not access paths (undecided, fails closed)")
			k(st, nil)
			return
		}
		if st.stale != token.NoPos {
			pe.violate(pe.site(), "call "+fn.Name(), call.Pos(), "the tree was changed earlier on this path ("+pe.c.P.Pos(st.stale)+"): what the tested conditions say about it no longer holds (undecided, fails closed)")
		} else {
			recv := "b"
			if sel, ok := call.Fun.(*ast.SelectorExpr); ok {
				if r, ok := pe.symOf(st, sel.X); ok {
					recv = r
				}
			}
			pre := []string{symEq(m, recv+"."+ct.rootField), symEq(p+"."+bstF.small, m), symEq(p+"."+bstF.large, m)}
			bad := ""
			okW := pe.worlds(st, pre, func(w map[string]bool, keys []string) {
				if !(atomVal(w, pre[0]) || atomVal(w, pre[1]) || atomVal(w, pre[2])) && bad == "" {
					bad = worldText(w, keys)
				}
			})
			pe.c.Run.Oblige(okW && bad == "")
			if !okW || bad != "" {
				pe.violate(pe.site(), "call "+fn.Name(), call.Pos(), fn.Name()+" unlinks "+m+" from the link of "+p+" (or the root) that points at it, but no such link is known to point at "+m+" here: it would change the wrong link (e.g. when "+short(bad, 160)+")")
			}
		}
		st.spliced[m] = true
		st.stale = call.Pos()
		k(st, nil)
		return
	}
	// inline: only functions whose bodies matter (writers, or pure helpers returning tree values)
	returnsTree := sig.Results().Len() == 1 && (isNodePtr(sig.Results().At(0).Type()) || isLinkPtr(sig.Results().At(0).Type()))
	if !pe.writers[fn] && !returnsTree {
		var res []string
		for i := 0; i < sig.Results().Len(); i++ {
			res = append(res, pe.fresh("?"))
		}
		k(st, res)
		return
	}
	if len(st.stack) > 6 {
		k(st, nil)
		return
	}
	// bind receiver and parameters
	pe.evalList(st, call.Args, func(st2 *pstate, args []string) {
		if fd.Recv != nil && len(fd.Recv.List) == 1 && len(fd.Recv.List[0].Names) == 1 {
			if sel, ok := call.Fun.(*ast.SelectorExpr); ok {
				if r, ok := pe.symOf(st2, sel.X); ok {
					st2.val[pe.info.ObjectOf(fd.Recv.List[0].Names[0])] = r
				}
			}
		}
		i := 0
		for _, f := range fd.Type.Params.List {
			for _, nm := range f.Names {
				if i < len(args) {
					st2.val[pe.info.ObjectOf(nm)] = args[i]
				}
				i++
			}
		}
		st2.stack = append(st2.stack, fn)
		pe.curFn = append(pe.curFn, fd.Name.Name)
		depth := len(pe.curFn)
		done := func(s *pstate, res []string) {
			saved := pe.curFn
			pe.curFn = pe.curFn[:depth-1]
			s.stack = s.stack[:len(s.stack)-1]
			k(s, res)
			pe.curFn = saved
		}
		pe.exec(st2, fd.Body.List, conts{ret: done}, func(s *pstate) { done(s, nil) })
		pe.curFn = pe.curFn[:depth-1]
	})
}

func rootFieldName(t types.Type) string {
	if p, ok := t.(*types.Pointer); ok {
		t = p.Elem()
	}
	if st, ok := t.Underlying().(*types.Struct); ok {
		for i := 0; i < st.NumFields(); i++ {
			if isNodePtr(st.Field(i).Type()) {
				return st.Field(i).Name()
			}
		}
	}
	return "root"
}

type pContract struct {
	n, p      types.Object
	recv      types.Object
	rootField string
}

func (pe *pathEngine) contract(fd *ast.FuncDecl) *pContract {
	if fd.Recv == nil || len(fd.Recv.List) != 1 || len(fd.Recv.List[0].Names) != 1 {
		return nil
	}
	rv := pe.info.ObjectOf(fd.Recv.List[0].Names[0])
	if rv == nil || helperNamed(rv.Type()) != "Bst" {
		return nil
	}
	var nodes []types.Object
	for _, f := range fd.Type.Params.List {
		for _, nm := range f.Names {
			o := pe.info.ObjectOf(nm)
			if o == nil || !isNodePtr(o.Type()) {
				return nil
			}
			nodes = append(nodes, o)
		}
	}
	if len(nodes) != 2 {
		return nil
	}
	return &pContract{n: nodes[0], p: nodes[1], recv: rv, rootField: rootFieldName(rv.Type())}
}

func (pe *pathEngine) assign(st *pstate, as *ast.AssignStmt, after func(*pstate)) {
	// tuple from one call
	if len(as.Rhs) == 1 && len(as.Lhs) > 1 {
		if call, ok := as.Rhs[0].(*ast.CallExpr); ok {
			pe.hints = nil
			for _, l := range as.Lhs {
				if id, ok := l.(*ast.Ident); ok {
					pe.hints = append(pe.hints, id.Name)
				}
			}
			hints := pe.hints
			defer func() { pe.hints = nil }()
			_ = hints
			pe.call(st, call, func(st2 *pstate, res []string) {
				pe.hints = nil
				for i, l := range as.Lhs {
					v := pe.fresh("?")
					if i < len(res) {
						v = res[i]
					}
					if id, ok := l.(*ast.Ident); ok && id.Name != "_" {
						st2.val[pe.info.ObjectOf(id)] = v
					}
				}
				after(st2)
			})
			return
		}
		// v, ok := <-c and the like
		for _, l := range as.Lhs {
			if id, ok := l.(*ast.Ident); ok && id.Name != "_" && isTreeVar(pe.info.ObjectOf(id)) {
				st.val[pe.info.ObjectOf(id)] = pe.fresh("?")
			}
		}
		after(st)
		return
	}
	if len(as.Rhs) != len(as.Lhs) {
		after(st)
		return
	}
	if as.Tok != token.ASSIGN && as.Tok != token.DEFINE {
		after(st)
		return
	}
	pe.evalList(st, as.Rhs, func(st2 *pstate, vals []string) {
		// stores first (their places are evaluated in the state before the assignment)
		type store struct {
			place, val string
			value      bool
			l          ast.Expr
			r          ast.Expr
		}
		var stores []store
		locals := map[types.Object]string{}
		for i, l := range as.Lhs {
			switch x := ast.Unparen(l).(type) {
			case *ast.Ident:
				if x.Name != "_" {
					if o := pe.info.ObjectOf(x); o != nil {
						t := o.Type()
						if isNodePtr(t) || isLinkPtr(t) || helperNamed(t) == "Bst" {
							locals[o] = vals[i]
						}
					}
				}
			case *ast.SelectorExpr:
				if pe.isLinkField(x) {
					if p, ok := pe.symOf(st2, x); ok {
						stores = append(stores, store{place: p, val: vals[i], l: l, r: as.Rhs[i]})
					} else {
						pe.violate(pe.site(), "store "+exprString(l), as.Pos(), "the link stored into is not an access path (undecided, fails closed)")
					}
				} else if pe.isValueField(x) {
					if p, ok := pe.symOf(st2, x.X); ok {
						stores = append(stores, store{place: p, val: vals[i], value: true, l: l, r: as.Rhs[i]})
					}
				}
			case *ast.StarExpr:
				t := pe.info.TypeOf(x)
				if t != nil && isNodePtr(t) {
					if p, ok := pe.symOf(st2, x); ok {
						stores = append(stores, store{place: p, val: vals[i], l: l, r: as.Rhs[i]})
					} else {
						pe.violate(pe.site(), "store "+exprString(l), as.Pos(), "the link stored into is not an access path (undecided, fails closed)")
					}
				} else if t != nil && helperNamed(t) == "BstNode" {
					pe.writes[as.Pos()] = true
					pe.violate(pe.site(), "node copy", as.Pos(), "a whole tree node is overwritten ("+exprString(l)+"): the link discipline cannot be decided (fails closed)")
				}
			}
		}
		for _, s := range stores {
			pe.writes[as.Pos()] = true
			if s.value {
				pe.valueStore(st2, s.place, s.r, as.Pos())
			} else {
				pe.linkStore(st2, s.place, s.val, exprString(s.l)+" = "+exprString(s.r), as.Pos())
			}
		}
		for o, v := range locals {
			st2.val[o] = v
		}
		after(st2)
	})
}

func splitLast(sym string) (string, string) {
	i := strings.LastIndex(sym, ".")
	if i < 0 {
		return sym, ""
	}
	return sym[:i], sym[i+1:]
}

func (pe *pathEngine) linkStore(st *pstate, place, val, text string, pos token.Pos) {
	c := pe.c
	site := pe.site()
	if st.stale != token.NoPos {
		pe.violate(site, "store "+text, pos, "the tree was changed earlier on this path ("+c.P.Pos(st.stale)+"): what the tested conditions say about it no longer holds (undecided, fails closed)")
		st.stale = pos
		return
	}
	defer func() { st.stale = pos }()
	st.changes++
	switch {
	case strings.HasPrefix(val, "new"):
		st.attach++
		if strings.HasPrefix(place, "b.") && strings.Count(place, ".") == 1 {
			pe.attachedAtRoot = true
		}
		ok, bad := pe.mustHold(st, symEq(place, "nil"))
		c.Run.Oblige(ok)
		if !ok {
			pe.violate(site, "attach "+text, pos, "a new node is stored into "+place+" although that link is not known to be nil there: the subtree it held leaves the tree (e.g. when "+short(bad, 140)+")")
		}
	case val == "nil":
		ok, bad := pe.mustHold(st, symEq(place, "nil"))
		c.Run.Oblige(ok)
		if !ok {
			pe.violate(site, "splice "+text, pos, "nil is stored into "+place+", so whatever it held leaves the tree (e.g. when "+short(bad, 140)+")")
		}
	default:
		n, g := splitLast(val)
		if g != bstF.small && g != bstF.large {
			c.Run.Oblige(false)
			pe.violate(site, "splice "+text, pos, "the value stored into "+place+" ("+val+") is neither a new node nor a child of the node being unlinked (undecided, fails closed)")
			return
		}
		og := bstF.small
		if g == bstF.small {
			og = bstF.large
		}
		tgt, other := symEq(place, n), symEq(n+"."+og, "nil")
		bad, why := "", ""
		okW := pe.worlds(st, []string{tgt, other}, func(w map[string]bool, keys []string) {
			if bad != "" {
				return
			}
			if !atomVal(w, tgt) {
				bad, why = worldText(w, keys), place+" is not known to point at "+n+", the node whose child replaces it"
			} else if !atomVal(w, other) {
				bad, why = worldText(w, keys), n+"."+og+" is not known to be nil, so its subtree leaves the tree together with "+n
			}
		})
		if !okW {
			bad, why = "-", "too many conditions on this path (undecided)"
		}
		c.Run.Oblige(bad == "")
		if bad != "" {
			pe.violate(site, "splice "+text, pos, "unlinking through "+text+" can lose nodes: "+why+" (e.g. when "+short(bad, 160)+")")
		}
		st.spliced[n] = true
	}
}

func (pe *pathEngine) valueStore(st *pstate, n string, rhs ast.Expr, pos token.Pos) {
	c := pe.c
	site := pe.site()
	detail := "replace " + n + "." + bstF.value
	sel, ok := ast.Unparen(rhs).(*ast.SelectorExpr)
	if !ok || !pe.isValueField(sel) {
		c.Run.Oblige(false)
		pe.violate(site, detail, pos, "the value of a node in the tree is overwritten with "+exprString(rhs)+", which is not the value of another node (undecided, fails closed)")
		return
	}
	m, ok := pe.symOf(st, sel.X)
	if !ok {
		pe.violate(site, detail, pos, "source node is not an access path (undecided, fails closed)")
		return
	}
	prov, has := st.finder[m]
	if !has {
		c.Run.Oblige(false)
		pe.violate(site, detail, pos, exprString(sel.X)+" is not the result of a verified neighbour search below "+n)
		return
	}
	base, l := splitLast(prov.start)
	if base != n || (l != bstF.small && l != bstF.large) {
		c.Run.Oblige(false)
		pe.violate(site, detail, pos, "the node whose value moves up is searched from "+prov.start+", not from a child of "+n)
		return
	}
	good := len(prov.links) == 1 && !prov.links[l]
	c.Run.Oblige(good)
	if !good {
		pe.violate(site, detail, pos, "the replacement is searched from "+prov.start+" along "+strings.Join(sortedKeys(prov.links), ",")+": the in-order neighbour is reached by descending along the OTHER link only, otherwise the ordering of the tree is broken")
	}
	nz := symEq(prov.start, "nil")
	bad := ""
	pe.worlds(st, []string{nz}, func(w map[string]bool, keys []string) {
		if atomVal(w, nz) && bad == "" {
			bad = worldText(w, keys)
		}
	})
	c.Run.Oblige(bad == "")
	if bad != "" {
		pe.violate(site, detail+" start", pos, prov.start+" can be nil where the neighbour search starts (e.g. when "+short(bad, 120)+")")
	}
	st.changes++
	st.copies = append(st.copies, copyRec{src: m, pos: pos, fn: site})
}

// endOfPath: every value that was copied up belongs to a node that was unlinked.
func (pe *pathEngine) endOfPath(st *pstate) {
	pe.paths++
	// a node that was allocated is attached exactly once before the function returns (Insert), and
	// a function that exists to unlink a node (the recursive splicer) changes the tree on every path
	if st.created > 0 {
		ok := st.attach == st.created
		pe.c.Run.Oblige(ok)
		if !ok {
			pe.violate(pe.site(), "attach count", pe.rootPos, fmt.Sprintf("a path allocates %d node(s) and stores %d of them into the tree: an inserted value is lost (or stored twice)", st.created, st.attach))
		}
	}
	if pe.rootSplices && st.changes == 0 {
		pe.c.Run.Oblige(false)
		pe.violate(pe.site(), "no change", pe.rootPos, "a path of the unlinking function returns without changing a link, the root or a value: the node to be removed stays in the tree")
	}
	for _, cp := range st.copies {
		ok := st.spliced[cp.src]
		pe.c.Run.Oblige(ok)
		if !ok {
			pe.violate(cp.fn, "replace source", cp.pos, "the value of the neighbour node is copied up but that node is not unlinked (with the parent its search returned) on the same path: the value would be in the tree twice")
		}
	}
}

// bstLinks: the link discipline decided by path interpretation.
func (c *Ctx) bstLinks() {
	run := c.Run
	run.Explanation += " A loop of the tree code that follows links from a cursor it never tests has a non-nil cursor on entry and after every iteration, and no iteration leaves every variable and the tree unchanged."
	hp := c.P.Pkg("helper")
	info := hp.TypesInfo
	pe := &pathEngine{c: c, info: info, decls: map[*types.Func]*ast.FuncDecl{}, writers: map[*types.Func]bool{}, recursive: map[*types.Func]bool{},
		callers: map[*types.Func]int{}, writes: map[token.Pos]bool{}, calls: map[token.Pos]bool{}, reported: map[string]bool{}, budget: 200000}
	for _, f := range hp.Syntax {
		if strings.HasSuffix(c.P.Fset.Position(f.Pos()).Filename, "_test.go") {
			continue
		}
		for _, d := range f.Decls {
			if fd, ok := d.(*ast.FuncDecl); ok && fd.Body != nil {
				if fn, ok := info.ObjectOf(fd.Name).(*types.Func); ok {
					pe.decls[fn] = fd
				}
			}
		}
	}
	// direct writers and the call graph inside the package
	calls := map[*types.Func]map[*types.Func]bool{}
	for fn, fd := range pe.decls {
		calls[fn] = map[*types.Func]bool{}
		ast.Inspect(fd.Body, func(n ast.Node) bool {
			switch x := n.(type) {
			case *ast.AssignStmt:
				if x.Tok == token.ASSIGN {
					for _, l := range x.Lhs {
						switch y := ast.Unparen(l).(type) {
						case *ast.SelectorExpr:
							if pe.isLinkField(y) || pe.isValueField(y) {
								pe.writers[fn] = true
							}
						case *ast.StarExpr:
							if t := info.TypeOf(y); t != nil && (isNodePtr(t) || helperNamed(t) == "BstNode") {
								if _, isPtr := t.(*types.Pointer); isPtr || helperNamed(t) == "BstNode" {
									pe.writers[fn] = true
								}
							}
						}
					}
				}
			case *ast.CallExpr:
				if g := callee(info, x); g != nil {
					if _, ok := pe.decls[g.Origin()]; ok {
						calls[fn][g.Origin()] = true
					}
				}
			}
			return true
		})
	}
	for changed := true; changed; {
		changed = false
		for fn, cs := range calls {
			for g := range cs {
				if pe.writers[g] && !pe.writers[fn] {
					pe.writers[fn], changed = true, true
				}
			}
		}
	}
	// recursion: fn reaches itself
	for fn := range pe.decls {
		seen := map[*types.Func]bool{}
		var reach func(g *types.Func) bool
		reach = func(g *types.Func) bool {
			for h := range calls[g] {
				if h == fn {
					return true
				}
				if !seen[h] {
					seen[h] = true
					if reach(h) {
						return true
					}
				}
			}
			return false
		}
		if reach(fn) {
			pe.recursive[fn] = true
		}
	}
	for _, cs := range calls {
		for g := range cs {
			pe.callers[g]++
		}
	}
	// roots: writers that are exported, recursive, or called by nobody in the package
	var roots []*types.Func
	for fn := range pe.decls {
		if pe.writers[fn] && (fn.Exported() || pe.recursive[fn] || pe.callers[fn] == 0) {
			roots = append(roots, fn)
		}
	}
	sort.Slice(roots, func(i, j int) bool { return roots[i].Pos() < roots[j].Pos() })
	for _, fn := range roots {
		fd := pe.decls[fn]
		st := &pstate{val: map[types.Object]string{}, atoms: map[string]bool{}, spliced: map[string]bool{}, finder: map[string]finderProv{}, stack: []*types.Func{fn}}
		if fd.Recv != nil && len(fd.Recv.List) == 1 && len(fd.Recv.List[0].Names) == 1 {
			st.val[info.ObjectOf(fd.Recv.List[0].Names[0])] = "b"
		}
		if pe.recursive[fn] {
			if ct := pe.contract(fd); ct != nil {
				n, p := ct.n.Name(), ct.p.Name()
				pre := []string{symEq(n, "b."+ct.rootField), symEq(p+"."+bstF.small, n), symEq(p+"."+bstF.large, n)}
				for _, a := range pre {
					st.atoms[a] = true
				}
				st.facts = append(st.facts, func(w map[string]bool) bool { return w[pre[0]] || w[pre[1]] || w[pre[2]] })
			}
		}
		pe.curFn = []string{fd.Name.Name}
		pe.rootPos, pe.rootSplices = fd.Pos(), pe.recursive[fn] && pe.contract(fd) != nil
		pe.attachedAtRoot, pe.sawCreate = false, false
		pe.exec(st, fd.Body.List, conts{ret: func(s *pstate, _ []string) { pe.endOfPath(s) }}, func(s *pstate) { pe.endOfPath(s) })
		if pe.sawCreate {
			// the first value of an empty tree becomes its root
			run.Oblige(pe.attachedAtRoot)
			if !pe.attachedAtRoot {
				pe.violate(fd.Name.Name, "empty tree", fd.Pos(), "no path of "+fd.Name.Name+" stores the new node as the root: inserting into an empty tree walks from a nil root")
			}
		}
	}
	run.Count("bst_link_writes", len(pe.writes))
	run.Floor("bst_link_writes", 4)
	run.Count("bst_contract_calls", len(pe.calls))
	run.Count("bst_paths", pe.paths)
	run.Floor("bst_paths", 6)
}
