package rules

import (
	"fmt"
	"hash/fnv"
	"strings"

	"verif/checker/internal/shape"
	"verif/checker/internal/sym"
)

// Semantic side of the join-alignment rule (C01).
//
// The value term of a join's output says which inputs, how many days back, it combines. A join
// whose operands are anchored at different positions is prescribed by the documented formula when
// that term, up to a uniform shift in time, equals a sub-term of the formula (for example
// closings - prev(closings) inside the Force Index). This is what makes the rule independent of
// HOW the offset is built (helper.Change or its inlined Duplicate/Buffered/Skip/Subtract).

var (
	joinTerms    = map[*shape.Result]*shape.Terms{}
	specSubCache = map[*shape.Result][]sym.Expr{}
)

func (c *Ctx) termsOf(r *shape.Result) *shape.Terms {
	if t, ok := joinTerms[r]; ok {
		return t
	}
	t := shape.NewTerms(c.P, r)
	joinTerms[r] = t
	return t
}

// joinTerm: the value term of the first output of a join stage.
func (c *Ctx) joinTerm(r *shape.Result, st *shape.Stage) (e sym.Expr, ok bool) {
	if len(st.Outs) == 0 {
		return nil, false
	}
	defer func() {
		if recover() != nil {
			e, ok = nil, false
		}
	}()
	return c.termsOf(r).Of(st.Outs[0]), true
}

// specSubterms: every sub-term of the documented formula of the root's type.
func (c *Ctx) specSubterms(r *shape.Result) []sym.Expr {
	if s, ok := specSubCache[r]; ok {
		return s
	}
	var out []sym.Expr
	defer func() { specSubCache[r] = out }()
	if r.Recv == nil {
		return nil
	}
	tn := r.Recv.TypeName()
	var sp *formulaSpec
	for i := range FormulaSpecs {
		if FormulaSpecs[i].Type == tn {
			sp = &FormulaSpecs[i]
		}
	}
	for i := range opaqueFormulaSpecs {
		if opaqueFormulaSpecs[i].Type == tn {
			sp = &opaqueFormulaSpecs[i]
		}
	}
	if sp == nil {
		return nil
	}
	var streams []string
	for _, ps := range r.ParamStreams {
		streams = append(streams, ps.Param)
	}
	env := &specEnv{r: r, params: specParams(r.Root, streams)}
	for _, o := range sp.Outs {
		want, err := env.parse(env.expand(o, sp.Let))
		if err != nil {
			continue
		}
		collectSubterms(want, &out)
	}
	return out
}

func collectSubterms(e sym.Expr, into *[]sym.Expr) {
	switch x := e.(type) {
	case sym.Bin:
		*into = append(*into, e)
		collectSubterms(x.L, into)
		collectSubterms(x.R, into)
	case sym.Neg:
		*into = append(*into, e)
		collectSubterms(x.X, into)
	case sym.Call:
		*into = append(*into, e)
		if x.Fn == "at" {
			return
		}
		for _, a := range x.Args {
			collectSubterms(a, into)
		}
	case sym.Ite:
		*into = append(*into, e)
		collectSubterms(x.A, into)
		collectSubterms(x.B, into)
	}
}

// srcDelays: the delays of the input-series leaves of a term (a bare series has delay 0).
func srcDelays(e sym.Expr, into map[string]sym.Expr) {
	switch x := e.(type) {
	case sym.Var:
		if strings.HasPrefix(x.Name, "src:") {
			into["0"] = sym.N(0)
		}
	case sym.Bin:
		srcDelays(x.L, into)
		srcDelays(x.R, into)
	case sym.Neg:
		srcDelays(x.X, into)
	case sym.Cmp:
		srcDelays(x.L, into)
		srcDelays(x.R, into)
	case sym.Logic:
		for _, a := range x.Args {
			srcDelays(a, into)
		}
	case sym.Ite:
		srcDelays(x.Cond, into)
		srcDelays(x.A, into)
		srcDelays(x.B, into)
	case sym.Call:
		if x.Fn == "at" && len(x.Args) == 2 {
			into[sym.CanonString(x.Args[1])] = x.Args[1]
			return
		}
		for _, a := range x.Args {
			srcDelays(a, into)
		}
	}
}

// shiftSrc delays every input-series leaf of e by k more days.
func shiftSrc(e sym.Expr, k sym.Expr) sym.Expr {
	mk := func(x sym.Expr, d sym.Expr) sym.Expr {
		if r := sym.Canon0(d); r != nil && r.Sign() == 0 {
			return x
		}
		return sym.F("at", x, d)
	}
	switch x := e.(type) {
	case sym.Var:
		if strings.HasPrefix(x.Name, "src:") {
			return mk(x, k)
		}
		return x
	case sym.Bin:
		return sym.Bin{Op: x.Op, L: shiftSrc(x.L, k), R: shiftSrc(x.R, k)}
	case sym.Neg:
		return sym.Neg{X: shiftSrc(x.X, k)}
	case sym.Cmp:
		return sym.Cmp{Op: x.Op, L: shiftSrc(x.L, k), R: shiftSrc(x.R, k)}
	case sym.Logic:
		as := make([]sym.Expr, len(x.Args))
		for i, a := range x.Args {
			as[i] = shiftSrc(a, k)
		}
		return sym.Logic{Op: x.Op, Args: as}
	case sym.Ite:
		return sym.Ite{Cond: shiftSrc(x.Cond, k), A: shiftSrc(x.A, k), B: shiftSrc(x.B, k)}
	case sym.Call:
		if x.Fn == "at" && len(x.Args) == 2 {
			return mk(x.Args[0], sym.Add(x.Args[1], k))
		}
		as := make([]sym.Expr, len(x.Args))
		for i, a := range x.Args {
			as[i] = shiftSrc(a, k)
		}
		return sym.Call{Fn: x.Fn, Args: as}
	}
	return e
}

// equalModuloShift: a and b are the same function of the input series up to a uniform delay.
func equalModuloShift(a, b sym.Expr) bool {
	da, db := map[string]sym.Expr{}, map[string]sym.Expr{}
	srcDelays(a, da)
	srcDelays(b, db)
	if len(da) == 0 || len(db) == 0 || len(da) != len(db) {
		return false
	}
	for _, x := range da {
		an := shiftSrc(a, sym.Neg{X: x})
		for _, y := range db {
			bn := shiftSrc(b, sym.Neg{X: y})
			if sym.Equal(an, bn) || sym.Equal(anonymise(an), anonymise(bn)) {
				return true
			}
		}
	}
	return false
}

// prescribedJoin: the offset between the operands of this join is the one the documented formula
// of the root prescribes. The second result is the matching sub-term, for the evidence.
func (c *Ctx) prescribedJoin(r *shape.Result, st *shape.Stage) (bool, string) {
	got, ok := c.joinTerm(r, st)
	if !ok || got == nil {
		return false, ""
	}
	for _, s := range c.specSubterms(r) {
		if equalModuloShift(got, s) {
			return true, short(sym.CanonString(s), 120)
		}
	}
	return false, ""
}

// joinSite: the name of a join in findings. For indicators it is the value the join computes
// (stable when the same arithmetic is written with another helper), otherwise the construct.
func (c *Ctx) joinSite(prop string, r *shape.Result, st *shape.Stage) string {
	if prop == "C01" && r.Recv != nil && isIndicatorType(r.Recv.TypeName()) {
		if t, ok := c.joinTerm(r, st); ok && t != nil {
			full := sym.CanonString(t)
			h := fnv.New32a()
			h.Write([]byte(full))
			return fmt.Sprintf("%s/join[%s #%08x]", r.RootName, short(full, 90), h.Sum32())
		}
	}
	return fmt.Sprintf("%s/%s", r.RootName, st.Construct)
}

func isIndicatorType(tn string) bool {
	for _, p := range indicatorPkgs {
		if strings.HasPrefix(tn, p+".") {
			return true
		}
	}
	return false
}
