package rules

import (
	"fmt"
	"go/ast"
	"go/parser"
	"go/token"
	"go/types"
	"sort"
	"strings"

	"verif/checker/internal/load"
	"verif/checker/internal/shape"
	"verif/checker/internal/sym"
)

var roleNames = map[string]bool{"Open": true, "High": true, "Low": true, "Close": true, "Volume": true, "Date": true}

// paramRole maps a parameter name of an indicator Compute method to the price field it designates.
func paramRole(name string) string {
	switch strings.ToLower(name) {
	case "high", "highs":
		return "High"
	case "low", "lows":
		return "Low"
	case "closing", "closings", "close", "closes":
		return "Close"
	case "opening", "openings", "open", "opens":
		return "Open"
	case "volume", "volumes":
		return "Volume"
	}
	return ""
}

// specEnv resolves the names of a specification expression against an analysed root.
type specEnv struct {
	r   *shape.Result
	src string // the snapshot source parameter (strategies) – roles are field:<Role>(src:<src>)
	// formula specifications: parameter names denote the input series, locals are plain variables
	params map[string]string // name used in the specification (pinned source) -> the parameter's name now
	locals map[string]bool
}

func (e *specEnv) field(role string) sym.Expr {
	return sym.Call{Fn: "field:" + role, Args: []sym.Expr{sym.V("src:" + e.src)}}
}

// object follows a selector path from the receiver through materialised fields.
func (e *specEnv) object(x ast.Expr) (*shape.Object, bool) {
	switch v := x.(type) {
	case *ast.Ident:
		if e.r == nil || e.r.Recv == nil {
			return nil, false
		}
		name := strings.TrimPrefix(v.Name, "obj_")
		if o, ok := shape.FieldOf(e.r.Recv, name).(*shape.Object); ok {
			return o, true
		}
		// an unexported field may have been renamed: `wma2` also denotes the 2nd field whose type
		// name contains "wma", `min` the only field whose type name contains "min"
		if alt := e.fieldByType(name); alt != "" {
			o, ok := shape.FieldOf(e.r.Recv, alt).(*shape.Object)
			return o, ok
		}
		return nil, false
	case *ast.SelectorExpr:
		b, ok := e.object(v.X)
		if !ok {
			return nil, false
		}
		o, ok := shape.FieldOf(b, v.Sel.Name).(*shape.Object)
		return o, ok
	}
	return nil, false
}

// fieldByType resolves a specification name against the receiver's struct by the type of the field.
func (e *specEnv) fieldByType(name string) string {
	if e.r == nil || e.r.Recv == nil {
		return ""
	}
	return shape.FieldAlias(e.r.Recv.Type, name)
}

func (e *specEnv) eval(x ast.Expr) (sym.Expr, error) {
	switch v := x.(type) {
	case *ast.ParenExpr:
		return e.eval(v.X)
	case *ast.BasicLit:
		if n, ok := sym.ParseNum(v.Value); ok {
			return n, nil
		}
	case *ast.Ident:
		if actual, ok := e.params[v.Name]; ok {
			return sym.V("src:" + actual), nil
		}
		if e.locals[v.Name] || (v.Name == "acc" && e.params != nil) {
			return sym.V(v.Name), nil
		}
		if e.locals != nil && (v.Name == "true" || v.Name == "false") {
			return sym.V("#" + v.Name), nil
		}
		if e.locals != nil && len(v.Name) == 2 && v.Name[0] == 'k' && v.Name[1] >= '1' && v.Name[1] <= '9' {
			return sym.V("$" + v.Name), nil // bound index of a sum
		}
		if strings.HasPrefix(v.Name, "calculatePeriods_") {
			return sym.V("cfg:calculatePeriods()#" + v.Name[len("calculatePeriods_"):]), nil
		}
		if roleNames[v.Name] {
			return e.field(v.Name), nil
		}
		switch v.Name {
		case "Buy", "Sell", "Hold":
			return sym.V("#" + v.Name), nil
		}
		if strings.HasPrefix(v.Name, "src_") {
			return sym.V("src:" + v.Name[4:]), nil
		}
		// configuration field of the receiver
		if e.r != nil && e.r.Recv != nil {
			if val := shape.FieldOf(e.r.Recv, v.Name); val != nil {
				if s, ok := shape.NumSym(val); ok {
					return s, nil
				}
			}
		}
		return sym.V("cfg:" + v.Name), nil
	case *ast.SelectorExpr:
		// configuration of a sub-object: Sum.Period
		if b, ok := e.object(v.X); ok {
			if val := shape.FieldOf(b, v.Sel.Name); val != nil {
				if s, ok := shape.NumSym(val); ok {
					return s, nil
				}
			}
			return sym.V("cfg:" + b.Path + "." + v.Sel.Name), nil
		}
	case *ast.UnaryExpr:
		a, err := e.eval(v.X)
		if err != nil {
			return nil, err
		}
		switch v.Op {
		case token.SUB:
			return sym.Neg{X: a}, nil
		case token.NOT:
			return sym.Logic{Op: "!", Args: []sym.Expr{a}}, nil
		}
	case *ast.BinaryExpr:
		l, err := e.eval(v.X)
		if err != nil {
			return nil, err
		}
		r, err := e.eval(v.Y)
		if err != nil {
			return nil, err
		}
		switch v.Op {
		case token.ADD, token.SUB, token.MUL, token.QUO:
			return sym.Bin{Op: v.Op.String(), L: l, R: r}, nil
		case token.LSS, token.LEQ, token.GTR, token.GEQ, token.EQL, token.NEQ:
			return sym.Cmp{Op: v.Op.String(), L: l, R: r}, nil
		case token.LAND:
			return sym.Logic{Op: "&&", Args: []sym.Expr{l, r}}, nil
		case token.LOR:
			return sym.Logic{Op: "||", Args: []sym.Expr{l, r}}, nil
		}
	case *ast.IndexExpr:
		// Ind(args)[k]
		call, ok := v.X.(*ast.CallExpr)
		if !ok {
			break
		}
		k := 0
		if bl, ok := v.Index.(*ast.BasicLit); ok {
			fmt.Sscan(bl.Value, &k)
		}
		return e.indCall(call, k)
	case *ast.CallExpr:
		if sel, ok := v.Fun.(*ast.SelectorExpr); ok && e.locals != nil {
			// a method of the step's only object of a type: Ring.At(k1), Ring.IsFull(), Ring.Put(x)
			if rid, ok := sel.X.(*ast.Ident); ok && (rid.Name == "Ring" || rid.Name == "Bst") {
				var args []sym.Expr
				for _, a := range v.Args {
					t, err := e.eval(a)
					if err != nil {
						return nil, err
					}
					args = append(args, t)
				}
				return sym.Call{Fn: rid.Name + "." + sel.Sel.Name, Args: args}, nil
			}
		}
		if id, ok := v.Fun.(*ast.Ident); ok {
			var args []sym.Expr
			if (id.Name == "sum" || id.Name == "exists") && len(v.Args) == 3 && e.locals != nil {
				for _, a := range v.Args {
					t, err := e.eval(a)
					if err != nil {
						return nil, err
					}
					args = append(args, t)
				}
				return sym.Call{Fn: id.Name, Args: args}, nil
			}
			if id.Name == "op" && len(v.Args) >= 1 {
				// op("operator name", args...): a stateful closure or hand-written stage of the root, by name
				bl, ok := v.Args[0].(*ast.BasicLit)
				if !ok {
					return nil, fmt.Errorf("op needs a literal operator name")
				}
				for _, a := range v.Args[1:] {
					t, err := e.eval(a)
					if err != nil {
						return nil, err
					}
					args = append(args, t)
				}
				return sym.Call{Fn: strings.Trim(bl.Value, "\""), Args: args}, nil
			}
			switch id.Name {
			case "prev", "at", "max", "min", "abs", "sqrt", "pow", "sign", "ite", "pos", "neg", "since", "scan", "RoundDigit":
				for _, a := range v.Args {
					t, err := e.eval(a)
					if err != nil {
						return nil, err
					}
					args = append(args, t)
				}
			}
			switch id.Name {
			case "prev":
				if len(args) == 1 {
					return shape.Delay(args[0], sym.N(1)), nil
				}
			case "at":
				if len(args) == 2 {
					return shape.Delay(args[0], args[1]), nil
				}
			case "sign":
				if len(args) == 1 && e.params != nil {
					zero := sym.N(0)
					return sym.Ite{Cond: sym.Cmp{Op: ">", L: args[0], R: zero}, A: sym.N(1),
						B: sym.Ite{Cond: sym.Cmp{Op: "<", L: args[0], R: zero}, A: sym.N(-1), B: zero}}, nil
				}
				return sym.Call{Fn: id.Name, Args: args}, nil
			case "pos":
				if len(args) == 1 {
					return sym.Ite{Cond: sym.Cmp{Op: ">", L: args[0], R: sym.N(0)}, A: args[0], B: sym.N(0)}, nil
				}
			case "neg":
				if len(args) == 1 {
					return sym.Ite{Cond: sym.Cmp{Op: "<", L: args[0], R: sym.N(0)}, A: args[0], B: sym.N(0)}, nil
				}
			case "since":
				return sym.Call{Fn: "closure:helper.Since#1", Args: args}, nil
			case "max", "min", "abs", "sqrt", "pow", "scan", "RoundDigit":
				return sym.Call{Fn: id.Name, Args: args}, nil
			case "ite":
				if len(args) == 3 {
					return sym.Ite{Cond: args[0], A: args[1], B: args[2]}, nil
				}
			}
		}
		return e.indCall(v, 0)
	}
	return nil, fmt.Errorf("unsupported specification expression %s", types.ExprString(x))
}

// indCall: application of a sub-indicator object of the receiver (named by its field path) or of a
// constructed one (Type{Field: value}) to argument series.
func (e *specEnv) indCall(call *ast.CallExpr, k int) (sym.Expr, error) {
	var args []sym.Expr
	for _, a := range call.Args {
		t, err := e.eval(a)
		if err != nil {
			return nil, err
		}
		args = append(args, t)
	}
	switch f := call.Fun.(type) {
	case *ast.CompositeLit:
		// Sma{Period: P}: name as shape.ObjName renders constructed objects
		tn := types.ExprString(f.Type)
		var fs []string
		for _, el := range f.Elts {
			kv, ok := el.(*ast.KeyValueExpr)
			if !ok {
				return nil, fmt.Errorf("constructed indicator needs keyed fields")
			}
			var val string
			if inner, ok := kv.Value.(*ast.CompositeLit); ok {
				in, err := e.indCall(&ast.CallExpr{Fun: inner}, 0)
				if err != nil {
					return nil, err
				}
				name := in.(sym.Call).Fn
				val = strings.TrimSuffix(strings.TrimPrefix(name, "ind:"), "#0")
			} else {
				t, err := e.eval(kv.Value)
				if err != nil {
					return nil, err
				}
				val = sym.CanonString(t)
			}
			fs = append(fs, types.ExprString(kv.Key)+"="+val)
		}
		sort.Strings(fs)
		return sym.Call{Fn: fmt.Sprintf("ind:%s{%s}#%d", tn, strings.Join(fs, ","), k), Args: args}, nil
	default:
		o, ok := e.object(call.Fun)
		if !ok {
			return nil, fmt.Errorf("the receiver has no indicator object %s", types.ExprString(call.Fun))
		}
		return sym.Call{Fn: fmt.Sprintf("ind:%s#%d", shape.ObjName(o), k), Args: args}, nil
	}
}

func (e *specEnv) parse(src string) (sym.Expr, error) {
	x, err := parser.ParseExpr(src)
	if err != nil {
		return nil, err
	}
	return e.eval(x)
}

// ---------------------------------------------------------------------------
// Decision functions compared on sign vectors.

// unordered: the sign value of a comparison key one of whose operands is NaN.
const unordered = 2

type signKey struct {
	key    string
	orient int
}

func cmpKey(c sym.Cmp) signKey {
	d := sym.Sub(c.L, c.R)
	a := sym.Canon(d).String()
	b := sym.Canon(sym.Neg{X: d}).String()
	if a <= b {
		return signKey{a, 1}
	}
	return signKey{b, -1}
}

func collectKeys(e sym.Expr, into map[string]bool) {
	switch x := e.(type) {
	case sym.Cmp:
		into[cmpKey(x).key] = true
	case sym.Logic:
		for _, a := range x.Args {
			collectKeys(a, into)
		}
	case sym.Ite:
		collectKeys(x.Cond, into)
		collectKeys(x.A, into)
		collectKeys(x.B, into)
	}
}

func evalCond(e sym.Expr, sg map[string]int) (bool, bool) {
	switch x := e.(type) {
	case sym.Cmp:
		k := cmpKey(x)
		s, ok := sg[k.key]
		if !ok {
			return false, false
		}
		if s == unordered {
			return x.Op == "!=", true
		}
		s *= k.orient
		switch x.Op {
		case "<":
			return s < 0, true
		case "<=":
			return s <= 0, true
		case ">":
			return s > 0, true
		case ">=":
			return s >= 0, true
		case "==":
			return s == 0, true
		case "!=":
			return s != 0, true
		}
	case sym.Logic:
		switch x.Op {
		case "!":
			v, ok := evalCond(x.Args[0], sg)
			return !v, ok
		case "&&":
			for _, a := range x.Args {
				v, ok := evalCond(a, sg)
				if !ok {
					return false, false
				}
				if !v {
					return false, true
				}
			}
			return true, true
		case "||":
			for _, a := range x.Args {
				v, ok := evalCond(a, sg)
				if !ok {
					return false, false
				}
				if v {
					return true, true
				}
			}
			return false, true
		}
	}
	return false, false
}

// evalDecision evaluates a nested ite over action constants.
func evalDecision(e sym.Expr, sg map[string]int) (string, bool) {
	switch x := e.(type) {
	case sym.Var:
		if strings.HasPrefix(x.Name, "#") {
			return x.Name[1:], true
		}
	case sym.Ite:
		c, ok := evalCond(x.Cond, sg)
		if !ok {
			return "", false
		}
		if c {
			return evalDecision(x.A, sg)
		}
		return evalDecision(x.B, sg)
	}
	return "", false
}

// indicatorParamNames returns the parameter names of <pkg>.<Type>.Compute.
func indicatorParamNames(p *load.Program, typeName string) []string {
	i := strings.Index(typeName, ".")
	if i < 0 {
		return nil
	}
	fi := p.Method(typeName[:i], typeName[i+1:], "Compute")
	if fi == nil {
		return nil
	}
	sig := fi.Fn.Type().(*types.Signature)
	var out []string
	for k := 0; k < sig.Params().Len(); k++ {
		out = append(out, sig.Params().At(k).Name())
	}
	return out
}

// termRole: the price field a term is (a possibly delayed copy of), "" when derived.
func termRole(e sym.Expr) string {
	c, ok := e.(sym.Call)
	if !ok {
		return ""
	}
	if strings.HasPrefix(c.Fn, "field:") && len(c.Args) == 1 {
		switch a := c.Args[0].(type) {
		case sym.Var:
			if strings.HasPrefix(a.Name, "src:") {
				return c.Fn[len("field:"):]
			}
		case sym.Call:
			if a.Fn == "at" {
				return c.Fn[len("field:"):]
			}
		}
	}
	return ""
}

// walkCalls visits every uninterpreted operator application in a term.
func walkCalls(e sym.Expr, f func(c sym.Call)) {
	switch x := e.(type) {
	case sym.Call:
		f(x)
		for _, a := range x.Args {
			walkCalls(a, f)
		}
	case sym.Neg:
		walkCalls(x.X, f)
	case sym.Bin:
		walkCalls(x.L, f)
		walkCalls(x.R, f)
	case sym.Cmp:
		walkCalls(x.L, f)
		walkCalls(x.R, f)
	case sym.Logic:
		for _, a := range x.Args {
			walkCalls(a, f)
		}
	case sym.Ite:
		walkCalls(x.Cond, f)
		walkCalls(x.A, f)
		walkCalls(x.B, f)
	}
}

// indTypeOf extracts "pkg.Type" from an operator name "ind:pkg.Type@path#k" / "ind:pkg.Type{...}#k".
func indTypeOf(fn string) string {
	if !strings.HasPrefix(fn, "ind:") {
		return ""
	}
	s := fn[4:]
	if i := strings.IndexAny(s, "@{"); i >= 0 {
		return s[:i]
	}
	return ""
}

// pinnedOf: the pinned-source names of the parameters of fn ("trend.Macd" for a Compute method,
// "helper.Change" for a helper), paired with their names now; falls back to the current names.
func pinnedOf(key string, sig *types.Signature) (orig []string, actual []string) {
	for i := 0; i < sig.Params().Len(); i++ {
		actual = append(actual, sig.Params().At(i).Name())
	}
	if pn, ok := pinnedParams[key]; ok && len(pn) == len(actual) {
		return pn, actual
	}
	return actual, actual
}

// rootKey: "trend.Macd" for the Compute method of an indicator, "helper.Change" for a function.
func rootKey(fi *load.FuncInfo) string {
	rel := load.RelPkg(fi.Pkg.PkgPath)
	if fi.Decl.Recv == nil {
		return rel + "." + fi.Fn.Name()
	}
	return strings.TrimSuffix(strings.Replace(load.FuncName(fi.Fn), ".(*", ".", 1), ")."+fi.Fn.Name())
}

// origName: the pinned-source name of a parameter of the analysed root.
func origName(fi *load.FuncInfo, actual string) string {
	orig, act := pinnedOf(rootKey(fi), fi.Fn.Type().(*types.Signature))
	for i, a := range act {
		if a == actual {
			return orig[i]
		}
	}
	return actual
}

// specParams builds the specification's parameter map (pinned name -> current name) for a root.
func specParams(fi *load.FuncInfo, streams []string) map[string]string {
	m := map[string]string{}
	for _, a := range streams {
		m[origName(fi, a)] = a
	}
	return m
}
