package rules

import (
	"fmt"
	"go/ast"
	"go/token"
	"go/types"
	"strings"

	"verif/checker/internal/load"
)

// What the reads of the append-order repositories hand back (C10: "Get returns all of them in
// order ... LastDate the date of the last one"), decided on where the returned values come from:
//
//   - repository/get: the stream Get returns is helper.SliceToChan of the stored slice itself (the
//     in-memory map element, not a sub-slice or a transformed copy), resp. the CSV reader over the
//     asset's file with a header row (the file-system repository; the codec is C11's subject);
//   - repository/lastdate: LastDate returns the Date of the one element of helper.Last(Get(name), 1);
//   - repository/sql-wiring: in the SQL repository each read or write uses the statement prepared
//     from the dialect text of the same name with the arguments in the documented order, and the
//     columns scanned by GetSince are the ones written by Append, in the same order.

// origin follows e back through locals defined exactly once (also by tuple assignments and by
// results of unexported helpers of the package) and returns the expression the value comes from.
func (c *Ctx) origin(info *types.Info, fd *ast.FuncDecl, e ast.Expr, depth int) (ast.Expr, *ast.FuncDecl) {
	e = ast.Unparen(e)
	if depth > 4 {
		return e, fd
	}
	if call, isCall := e.(*ast.CallExpr); isCall {
		// the one value an unexported helper of the package returns (every return the same origin)
		if fn := callee(info, call); fn != nil && !fn.Exported() {
			if sig, _ := fn.Type().(*types.Signature); sig != nil && sig.Results().Len() == 1 {
				if d := c.P.Decls[fn.Origin()]; d != nil && d.Decl.Body != nil && d.Pkg.TypesInfo == info && d.Decl != fd {
					var found ast.Expr
					var ffd *ast.FuncDecl
					same := true
					ast.Inspect(d.Decl.Body, func(nd ast.Node) bool {
						if _, isLit := nd.(*ast.FuncLit); isLit {
							return false
						}
						r, isRet := nd.(*ast.ReturnStmt)
						if !isRet || len(r.Results) != 1 {
							return true
						}
						o, ofd := c.origin(info, d.Decl, r.Results[0], depth+1)
						if found != nil && exprString(found) != exprString(o) {
							same = false
						}
						found, ffd = o, ofd
						return true
					})
					if found != nil && same {
						return found, ffd
					}
				}
			}
		}
		return e, fd
	}
	id, ok := e.(*ast.Ident)
	if !ok {
		return e, fd
	}
	obj := info.ObjectOf(id)
	if obj == nil {
		return e, fd
	}
	var rhs ast.Expr
	idx, tuple, n := 0, false, 0
	ast.Inspect(fd.Body, func(nd ast.Node) bool {
		switch x := nd.(type) {
		case *ast.AssignStmt:
			for i, l := range x.Lhs {
				if lid, isID := l.(*ast.Ident); isID && info.ObjectOf(lid) == obj {
					n++
					if len(x.Lhs) == len(x.Rhs) {
						rhs, tuple = x.Rhs[i], false
					} else if len(x.Rhs) == 1 {
						rhs, idx, tuple = x.Rhs[0], i, true
					}
				}
			}
		case *ast.IncDecStmt:
			if lid, isID := x.X.(*ast.Ident); isID && info.ObjectOf(lid) == obj {
				n += 2
			}
		case *ast.RangeStmt:
			for _, kv := range []ast.Expr{x.Key, x.Value} {
				if lid, isID := kv.(*ast.Ident); isID && info.ObjectOf(lid) == obj {
					n += 2
				}
			}
		}
		return true
	})
	if n != 1 || rhs == nil {
		return e, fd
	}
	rhs = ast.Unparen(rhs)
	if !tuple {
		return c.origin(info, fd, rhs, depth+1)
	}
	// v, ok := m[k]  /  v, ok := <-ch  /  v, err := f(...)
	switch x := rhs.(type) {
	case *ast.IndexExpr, *ast.UnaryExpr, *ast.TypeAssertExpr:
		if idx == 0 {
			return rhs, fd
		}
	case *ast.CallExpr:
		fn := callee(info, x)
		if fn != nil && !fn.Exported() {
			if d := c.P.Decls[fn.Origin()]; d != nil && d.Decl.Body != nil && d.Pkg.TypesInfo == info {
				// every return of the helper hands back the same origin at this position
				var found ast.Expr
				same := true
				ast.Inspect(d.Decl.Body, func(nd ast.Node) bool {
					if _, isLit := nd.(*ast.FuncLit); isLit {
						return false
					}
					r, isRet := nd.(*ast.ReturnStmt)
					if !isRet || len(r.Results) <= idx {
						return true
					}
					o, _ := c.origin(info, d.Decl, r.Results[idx], depth+1)
					if isNilIdent(o) {
						return true // the failure return
					}
					if found != nil && exprString(found) != exprString(o) {
						same = false
					}
					found = o
					return true
				})
				if found != nil && same {
					return found, d.Decl
				}
			}
		}
		return &tupleResult{call: x, idx: idx}, fd
	}
	return e, fd
}

// tupleResult: result idx of a call (a pseudo expression handed back by origin).
type tupleResult struct {
	ast.Expr
	call *ast.CallExpr
	idx  int
}

func (t *tupleResult) Pos() token.Pos { return t.call.Pos() }
func (t *tupleResult) End() token.Pos { return t.call.End() }

func (c *Ctx) repositoryValues() {
	run := c.Run
	n := 0
	recvName := func(fi *load.FuncInfo) types.Object {
		if fi.Decl.Recv != nil && len(fi.Decl.Recv.List) == 1 && len(fi.Decl.Recv.List[0].Names) == 1 {
			return fi.Pkg.TypesInfo.ObjectOf(fi.Decl.Recv.List[0].Names[0])
		}
		return nil
	}
	param := func(fi *load.FuncInfo, i int) types.Object {
		k := 0
		for _, f := range fi.Decl.Type.Params.List {
			for _, nm := range f.Names {
				if k == i {
					return fi.Pkg.TypesInfo.ObjectOf(nm)
				}
				k++
			}
		}
		return nil
	}
	// the value returned on the success paths (the first result where the last is nil, or the call
	// whose results are returned as they are)
	successValues := func(fi *load.FuncInfo) []ast.Expr {
		var out []ast.Expr
		ast.Inspect(fi.Decl.Body, func(nd ast.Node) bool {
			if _, isLit := nd.(*ast.FuncLit); isLit {
				return false
			}
			r, ok := nd.(*ast.ReturnStmt)
			if !ok {
				return true
			}
			switch len(r.Results) {
			case 1:
				out = append(out, r.Results[0])
			case 2:
				if isNilIdent(r.Results[1]) {
					out = append(out, r.Results[0])
				}
			}
			return true
		})
		return out
	}
	// --- Get
	if get := c.fn("asset", "InMemoryRepository", "Get"); get != nil {
		n++
		info := get.Pkg.TypesInfo
		site := "asset.(*InMemoryRepository).Get"
		why := ""
		vals := successValues(get)
		if len(vals) == 0 {
			why = "no success return found (undecided, fails closed)"
		}
		for _, v := range vals {
			o, _ := c.origin(info, get.Decl, v, 0)
			call, isCall := o.(*ast.CallExpr)
			if !isCall || !strings.HasSuffix(calleeName(info, call), "helper.SliceToChan") || len(call.Args) != 1 {
				why = "the stream returned is " + exprString(v) + ", not helper.SliceToChan of the stored snapshots"
				break
			}
			src, _ := c.origin(info, get.Decl, call.Args[0], 0)
			ix, isIx := src.(*ast.IndexExpr)
			isMap := false
			if isIx {
				if t := info.TypeOf(ix.X); t != nil {
					_, isMap = t.Underlying().(*types.Map)
				}
			}
			if !isMap {
				why = "the slice streamed is " + exprString(src) + ", not the stored map element itself: a sub-slice or a transformed copy is not \"all of them in order\""
			}
		}
		run.Oblige(why == "")
		if why != "" {
			c.violate("repository/get", site, short(why, 60), get.Decl.Pos(), "Get must return every snapshot appended so far, in order: "+why)
		}
	}
	if get := c.fn("asset", "FileSystemRepository", "Get"); get != nil {
		n++
		info := get.Pkg.TypesInfo
		site := "asset.(*FileSystemRepository).Get"
		why := ""
		name := param(get, 0)
		vals := successValues(get)
		if len(vals) == 0 {
			why = "no success return found (undecided, fails closed)"
		}
		for _, v := range vals {
			o, _ := c.origin(info, get.Decl, v, 0)
			if tr, isT := o.(*tupleResult); isT {
				o = tr.call
			}
			call, isCall := o.(*ast.CallExpr)
			if !isCall || !strings.HasSuffix(calleeName(info, call), "helper.ReadFromCsvFile") || len(call.Args) != 2 {
				why = "the stream returned is " + exprString(v) + ", not the CSV reader over the asset's file"
				break
			}
			if tv, ok := info.Types[call.Args[1]]; !ok || tv.Value == nil || tv.Value.String() != "true" {
				why = "the asset's file is read without its header row"
			}
			if name == nil || !usesObj(info, call.Args[0], name) {
				p0, _ := c.origin(info, get.Decl, call.Args[0], 0)
				if name == nil || !usesObj(info, p0, name) {
					why = "the file read is not derived from the asset name"
				}
			}
		}
		run.Oblige(why == "")
		if why != "" {
			c.violate("repository/get", site, short(why, 60), get.Decl.Pos(), "Get must return every snapshot appended so far, in order: "+why)
		}
	}
	// --- LastDate
	for _, typ := range []string{"InMemoryRepository", "FileSystemRepository"} {
		ld := c.fn("asset", typ, "LastDate")
		if ld == nil {
			continue
		}
		n++
		info := ld.Pkg.TypesInfo
		site := "asset.(*" + typ + ").LastDate"
		recv, name := recvName(ld), param(ld, 0)
		why := ""
		vals := successValues(ld)
		if len(vals) == 0 {
			why = "no success return found (undecided, fails closed)"
		}
		for _, v := range vals {
			o, _ := c.origin(info, ld.Decl, v, 0)
			sel, isSel := o.(*ast.SelectorExpr)
			if !isSel || sel.Sel.Name != "Date" {
				why = "the date returned is " + exprString(o) + ", not the Date of a stored snapshot"
				break
			}
			el, _ := c.origin(info, ld.Decl, sel.X, 0)
			rcv, isRecv := el.(*ast.UnaryExpr)
			if !isRecv || rcv.Op != token.ARROW {
				why = "the snapshot whose date is returned is " + exprString(el) + ", not an element received from helper.Last(Get(name), 1)"
				break
			}
			st, _ := c.origin(info, ld.Decl, rcv.X, 0)
			last, isCall := st.(*ast.CallExpr)
			if !isCall || !strings.HasSuffix(calleeName(info, last), "helper.Last") || len(last.Args) != 2 {
				why = "the snapshot is received from " + exprString(st) + ", not from helper.Last(…, 1)"
				break
			}
			if k, isC := constInt(info, last.Args[1]); !isC || k != 1 {
				why = "helper.Last is asked for " + exprString(last.Args[1]) + " elements: the first one received is then not the last snapshot"
				break
			}
			src, _ := c.origin(info, ld.Decl, last.Args[0], 0)
			var getCall *ast.CallExpr
			if tr, isT := src.(*tupleResult); isT && tr.idx == 0 {
				getCall = tr.call
			} else if cc, isC := src.(*ast.CallExpr); isC {
				getCall = cc
			}
			good := false
			if getCall != nil {
				if fn := callee(info, getCall); fn != nil && fn.Name() == "Get" {
					if s, isS := ast.Unparen(getCall.Fun).(*ast.SelectorExpr); isS {
						if rid, isID := ast.Unparen(s.X).(*ast.Ident); isID && recv != nil && info.ObjectOf(rid) == recv {
							good = len(getCall.Args) == 1 && name != nil && usesObj(info, getCall.Args[0], name)
						}
					}
				}
			}
			if !good {
				why = "helper.Last runs over " + exprString(src) + ", not over everything Get(name) returns"
			}
		}
		run.Oblige(why == "")
		if why != "" {
			c.violate("repository/lastdate", site, short(why, 60), ld.Decl.Pos(), "LastDate must return the date of the last snapshot appended: "+why)
		}
	}
	run.Count("repository_value_rules", n)
	run.Floor("repository_value_rules", 4)
	c.sqlWiring()
	c.sqlPool()
}

// sqlWiring: see the comment at the top of the file.
func (c *Ctx) sqlWiring() {
	run := c.Run
	ctor := c.fn("asset", "", "NewSQLRepository")
	ap := c.P.Pkg("asset")
	if ctor == nil || ap == nil {
		return
	}
	info := ap.TypesInfo
	tn, _ := ap.Types.Scope().Lookup("SQLRepository").(*types.TypeName)
	if tn == nil {
		return
	}
	st, _ := tn.Type().Underlying().(*types.Struct)
	if st == nil {
		return
	}
	// field -> dialect method whose text it was prepared from
	preparedFrom := func(e ast.Expr) string {
		o, _ := c.origin(info, ctor.Decl, e, 0)
		var call *ast.CallExpr
		if tr, isT := o.(*tupleResult); isT && tr.idx == 0 {
			call = tr.call
		} else if cc, isC := o.(*ast.CallExpr); isC {
			call = cc
		}
		if call == nil || !strings.HasSuffix(calleeName(info, call), "database/sql.(DB).Prepare") || len(call.Args) != 1 {
			return ""
		}
		txt, _ := c.origin(info, ctor.Decl, call.Args[0], 0)
		if dc, isC := txt.(*ast.CallExpr); isC {
			if fn := callee(info, dc); fn != nil {
				if sig, _ := fn.Type().(*types.Signature); sig != nil && sig.Recv() != nil {
					return fn.Name()
				}
			}
		}
		return ""
	}
	// the table the statements run on is created by the constructor: it executes the dialect's
	// CreateTable text (every other method of a fresh repository fails, or answers for another
	// table, without it)
	creates := false
	for _, body := range c.familyBodies(ctor) {
		ast.Inspect(body, func(nd ast.Node) bool {
			call, ok := nd.(*ast.CallExpr)
			if !ok || len(call.Args) < 1 || !strings.HasSuffix(calleeName(info, call), "database/sql.(DB).Exec") {
				return true
			}
			txt, _ := c.origin(info, ctor.Decl, call.Args[0], 0)
			if dc, isC := txt.(*ast.CallExpr); isC {
				if fn := callee(info, dc); fn != nil && fn.Name() == "CreateTable" {
					creates = true
				}
			}
			return true
		})
	}
	run.Oblige(creates)
	if !creates {
		c.violate("repository/sql-wiring", "asset.NewSQLRepository", "create table", ctor.Decl.Pos(), "the constructor no longer executes the dialect's CreateTable text: on a fresh database every statement of the repository runs against a table that does not exist")
	}
	fieldFrom := map[string]string{}
	ast.Inspect(ctor.Decl.Body, func(nd ast.Node) bool {
		cl, ok := nd.(*ast.CompositeLit)
		if !ok {
			return true
		}
		ct := info.TypeOf(cl)
		if ct == nil || !types.Identical(ct, tn.Type()) {
			return true
		}
		for i, el := range cl.Elts {
			fname, val := "", el
			if kv, isKV := el.(*ast.KeyValueExpr); isKV {
				if k, isID := kv.Key.(*ast.Ident); isID {
					fname, val = k.Name, kv.Value
				}
			} else if i < st.NumFields() {
				fname = st.Field(i).Name()
			}
			if fname == "" {
				continue
			}
			if m := preparedFrom(val); m != "" {
				fieldFrom[fname] = m
			}
		}
		return true
	})
	// fields assigned by the constructor or an unexported helper of it, also in the tuple form
	// `s.f, err = db.Prepare(dialect.M())`
	for _, member := range c.family(ctor) {
		if member.Decl.Body == nil {
			continue
		}
		ast.Inspect(member.Decl.Body, func(nd ast.Node) bool {
			as, ok := nd.(*ast.AssignStmt)
			if !ok || len(as.Lhs) != 2 || len(as.Rhs) != 1 {
				return true
			}
			sel, isSel := as.Lhs[0].(*ast.SelectorExpr)
			call, isCall := ast.Unparen(as.Rhs[0]).(*ast.CallExpr)
			if !isSel || !isCall || len(call.Args) != 1 || !strings.HasSuffix(calleeName(info, call), "database/sql.(DB).Prepare") {
				return true
			}
			if v, isF := info.ObjectOf(sel.Sel).(*types.Var); !isF || !v.IsField() {
				return true
			}
			txt, _ := c.origin(info, member.Decl, call.Args[0], 0)
			if dc, isC := txt.(*ast.CallExpr); isC {
				if fn := callee(info, dc); fn != nil {
					fieldFrom[sel.Sel.Name] = fn.Name()
				}
			}
			return true
		})
	}
	ast.Inspect(ctor.Decl.Body, func(nd ast.Node) bool {
		as, ok := nd.(*ast.AssignStmt)
		if !ok || len(as.Lhs) != len(as.Rhs) {
			return true
		}
		for i, l := range as.Lhs {
			if sel, isSel := l.(*ast.SelectorExpr); isSel {
				if v, isF := info.ObjectOf(sel.Sel).(*types.Var); isF && v.IsField() {
					if m := preparedFrom(as.Rhs[i]); m != "" {
						fieldFrom[sel.Sel.Name] = m
					}
				}
			}
		}
		return true
	})
	nUse := 0
	var scanned, written []string
	for _, meth := range []string{"Assets", "GetSince", "LastDate", "Append"} {
		fi := c.fn("asset", "SQLRepository", meth)
		if fi == nil || fi.Decl.Body == nil {
			continue
		}
		site := "asset.(*SQLRepository)." + meth
		var pars []types.Object
		for _, f := range fi.Decl.Type.Params.List {
			for _, nm := range f.Names {
				pars = append(pars, info.ObjectOf(nm))
			}
		}
		uses := 0
		// a parameter of an unexported helper stands for the method's parameter it is handed
		standsFor := map[types.Object]types.Object{}
		for _, body := range c.familyBodies(fi) {
			ast.Inspect(body, func(nd ast.Node) bool {
				call, ok := nd.(*ast.CallExpr)
				if !ok {
					return true
				}
				fn := callee(info, call)
				if fn == nil || fn.Exported() {
					return true
				}
				d := c.P.Decls[fn.Origin()]
				if d == nil || d.Decl.Type.Params == nil {
					return true
				}
				idx := 0
				for _, f := range d.Decl.Type.Params.List {
					for _, nm := range f.Names {
						if idx < len(call.Args) {
							if id, isID := ast.Unparen(call.Args[idx]).(*ast.Ident); isID {
								target := info.ObjectOf(id)
								if t2, has := standsFor[target]; has {
									target = t2
								}
								standsFor[info.ObjectOf(nm)] = target
							}
						}
						idx++
					}
				}
				return true
			})
		}
		for _, body := range c.familyBodies(fi) {
			ast.Inspect(body, func(nd ast.Node) bool {
				call, ok := nd.(*ast.CallExpr)
				if !ok {
					return true
				}
				name := calleeName(info, call)
				switch {
				case strings.HasSuffix(name, "database/sql.(Stmt).Query"), strings.HasSuffix(name, "database/sql.(Stmt).QueryRow"), strings.HasSuffix(name, "database/sql.(Stmt).Exec"):
					sel, isSel := ast.Unparen(call.Fun).(*ast.SelectorExpr)
					if !isSel {
						return true
					}
					stmtExpr := ast.Unparen(sel.X) // the statement may be used through a local
					if id, isID := stmtExpr.(*ast.Ident); isID {
						for _, ff := range c.family(fi) {
							if ff.Decl.Body != nil && ff.Decl.Body.Pos() <= id.Pos() && id.End() <= ff.Decl.Body.End() {
								stmtExpr, _ = c.origin(info, ff.Decl, id, 0)
							}
						}
					}
					fsel, isF := ast.Unparen(stmtExpr).(*ast.SelectorExpr)
					if !isF {
						return true
					}
					uses++
					nUse++
					from := fieldFrom[fsel.Sel.Name]
					good := from == meth
					run.Oblige(good)
					if !good {
						c.violate("repository/sql-wiring", site, "statement "+fsel.Sel.Name, call.Pos(), fmt.Sprintf("%s runs the statement in field %s, which NewSQLRepository prepares from the dialect's %s text, not from its %s text", meth, fsel.Sel.Name, map[bool]string{true: "(unknown)", false: from}[from == ""], meth))
					}
					// the arguments start with the method's parameters in their order (name, then date)
					k := 0
					for _, a := range call.Args {
						if k < len(pars) {
							if id, isID := ast.Unparen(a).(*ast.Ident); isID && (info.ObjectOf(id) == pars[k] || standsFor[info.ObjectOf(id)] == pars[k]) {
								k++
								continue
							}
						}
						break
					}
					wantLead := len(pars)
					if meth == "Append" {
						wantLead = 1
					}
					if wantLead > len(call.Args) {
						wantLead = len(call.Args)
					}
					goodArgs := k >= wantLead
					run.Oblige(goodArgs)
					if !goodArgs {
						c.violate("repository/sql-wiring", site, "arguments", call.Pos(), fmt.Sprintf("the statement of %s is run with (%s): its placeholders are bound to the method's parameters in their order", meth, exprString(&ast.CallExpr{Fun: ast.NewIdent(""), Args: call.Args})))
					}
					if meth == "Append" {
						for _, a := range call.Args[1:] {
							if s, isS := ast.Unparen(a).(*ast.SelectorExpr); isS {
								written = append(written, s.Sel.Name)
							} else {
								written = append(written, "?"+exprString(a))
							}
						}
					}
				case strings.HasSuffix(name, "database/sql.(Rows).Scan") && meth == "GetSince":
					for _, a := range call.Args {
						u, isU := ast.Unparen(a).(*ast.UnaryExpr)
						if isU && u.Op == token.AND {
							if s, isS := ast.Unparen(u.X).(*ast.SelectorExpr); isS {
								scanned = append(scanned, s.Sel.Name)
								continue
							}
						}
						scanned = append(scanned, "?"+exprString(a))
					}
				}
				return true
			})
		}
		run.Oblige(uses == 1)
		if uses != 1 {
			c.violate("repository/sql-wiring", site, "statements", fi.Decl.Pos(), fmt.Sprintf("%s runs %d prepared statements, expected exactly one", meth, uses))
		}
	}
	good := len(scanned) > 0 && strings.Join(scanned, ",") == strings.Join(written, ",")
	run.Oblige(good)
	if !good {
		c.violate("repository/sql-wiring", "asset.(*SQLRepository).GetSince/Append", "columns", ctor.Decl.Pos(), fmt.Sprintf("GetSince scans the columns into (%s), Append writes (%s): a snapshot read back is not the snapshot appended", strings.Join(scanned, ", "), strings.Join(written, ", ")))
	}
	run.Count("sql_statement_uses", nUse)
	run.Floor("sql_statement_uses", 4)
	// Assets: every name scanned from a row is appended to the list that is returned
	if fi := c.fn("asset", "SQLRepository", "Assets"); fi != nil && fi.Decl.Body != nil {
		why := "no row is scanned (undecided, fails closed)"
		for _, body := range c.familyBodies(fi) {
			ast.Inspect(body, func(nd ast.Node) bool {
				call, ok := nd.(*ast.CallExpr)
				if !ok || !strings.HasSuffix(calleeName(info, call), "database/sql.(Rows).Scan") || len(call.Args) != 1 {
					return true
				}
				u, isU := ast.Unparen(call.Args[0]).(*ast.UnaryExpr)
				if !isU || u.Op != token.AND {
					why = "the row is not scanned into a variable"
					return true
				}
				vid, isID := ast.Unparen(u.X).(*ast.Ident)
				if !isID {
					why = "the row is not scanned into a variable"
					return true
				}
				vobj := info.ObjectOf(vid)
				why = "the name scanned from a row is not appended to the list Assets returns: assets that hold snapshots are missing from the list"
				ast.Inspect(body, func(m ast.Node) bool {
					as, ok := m.(*ast.AssignStmt)
					if !ok || len(as.Lhs) != 1 || len(as.Rhs) != 1 {
						return true
					}
					ap, isCall := as.Rhs[0].(*ast.CallExpr)
					if !isCall || len(ap.Args) != 2 {
						return true
					}
					if id, isID := ap.Fun.(*ast.Ident); !isID || id.Name != "append" || exprString(ap.Args[0]) != exprString(as.Lhs[0]) {
						return true
					}
					if aid, isID := ast.Unparen(ap.Args[1]).(*ast.Ident); isID && info.ObjectOf(aid) == vobj {
						// and that list is what a success return hands back
						lst, _ := as.Lhs[0].(*ast.Ident)
						ast.Inspect(body, func(q ast.Node) bool {
							if r, isRet := q.(*ast.ReturnStmt); isRet && len(r.Results) == 2 && isNilIdent(r.Results[1]) {
								if rid, isID := ast.Unparen(r.Results[0]).(*ast.Ident); isID && lst != nil && info.ObjectOf(rid) == info.ObjectOf(lst) {
									why = ""
								}
							}
							return true
						})
					}
					return true
				})
				return true
			})
		}
		run.Oblige(why == "")
		if why != "" {
			c.violate("repository/sql-wiring", "asset.(*SQLRepository).Assets", short(why, 60), fi.Decl.Pos(), why)
		}
	}
}

// sqlPool: a stream handed out by the SQL repository keeps its rows - and with them a connection
// of the pool - until it has been read to its end. database/sql's pool is unbounded unless it is
// capped; with a cap every other call of the repository waits for a connection while streams
// are open (with a cap of one: forever, after the first unread stream). Rule: non-test code does
// not cap the pool (SetMaxOpenConns with anything but a constant <= 0). The expected count is
// zero; the matcher is tried on the method object of the loaded database/sql on every run.
func (c *Ctx) sqlPool() {
	run := c.Run
	run.Explanation += " The SQL connection pool is not capped (every open stream holds a connection until it is read to its end)."
	isCap := func(fn *types.Func) bool {
		return fn != nil && qualName(fn) == "database/sql.(DB).SetMaxOpenConns"
	}
	ap := c.P.Pkg("asset")
	if ap == nil {
		return
	}
	matcherWorks := false
	for _, imp := range ap.Types.Imports() {
		if imp.Path() != "database/sql" {
			continue
		}
		if tn, _ := imp.Scope().Lookup("DB").(*types.TypeName); tn != nil {
			obj, _, _ := types.LookupFieldOrMethod(types.NewPointer(tn.Type()), true, imp, "SetMaxOpenConns")
			if fn, _ := obj.(*types.Func); isCap(fn) {
				matcherWorks = true
			}
		}
	}
	run.Oblige(matcherWorks)
	if !matcherWorks {
		c.violate("repository/sql-pool", "asset", "matcher", ap.Syntax[0].Pos(), "the rule could not find database/sql.(*DB).SetMaxOpenConns through the asset package's imports: the pool rule would pass vacuously (fails closed)")
	}
	for _, pk := range c.P.Pkgs {
		for _, f := range pk.Syntax {
			if strings.HasSuffix(c.P.Fset.Position(f.Pos()).Filename, "_test.go") {
				continue
			}
			ast.Inspect(f, func(n ast.Node) bool {
				call, ok := n.(*ast.CallExpr)
				if !ok || len(call.Args) != 1 || !isCap(callee(pk.TypesInfo, call)) {
					return true
				}
				if v, isC := constInt(pk.TypesInfo, call.Args[0]); isC && v <= 0 {
					return true // "no limit"
				}
				run.Oblige(false)
				c.violate("repository/sql-pool", load.RelPkg(pk.PkgPath), "SetMaxOpenConns("+short(exprString(call.Args[0]), 20)+")", call.Pos(),
					"the connection pool is capped: every stream returned by Get/GetSince holds a connection until it is read to its end, so further calls of the repository wait for as long as such streams are open")
				return true
			})
		}
	}
}
