package rules

import (
	"fmt"
	"math/big"
	"sort"
	"strings"

	"verif/checker/internal/load"
	"verif/checker/internal/report"
	"verif/checker/internal/shape"
)

// expectedDegrees: the homogeneity each indicator's documented formula dictates, per output.
// "p" price, "v" volume, "1" unit-free, "in" the degree of the (single, generic) input.
var expectedDegrees = map[string][]string{
	"trend.Sma": {"in"}, "trend.Ema": {"in"}, "trend.Rma": {"in"}, "trend.Smma": {"in"}, "trend.Wma": {"in"}, "trend.Hma": {"in"},
	"trend.Dema": {"in"}, "trend.Tema": {"in"}, "trend.Trima": {"in"}, "trend.Kama": {"in"}, "trend.MovingSum": {"in"}, "trend.MovingMax": {"in"}, "trend.MovingMin": {"in"},
	"trend.Apo": {"in"}, "trend.Macd": {"in", "in"}, "trend.Envelope": {"in", "in", "in"}, "trend.Trix": {"1"}, "trend.Tsi": {"1"},
	"trend.Vwma": {"p"}, "trend.TypicalPrice": {"p"}, "trend.WeightedClose": {"p"}, "trend.Cci": {"1"}, "trend.Aroon": {"1", "1"}, "trend.Bop": {"1"},
	"trend.Kdj": {"1", "1", "1"}, "trend.MassIndex": {"1"}, "trend.Mls": {"1", "p"}, "trend.Mlr": {"p"},
	"momentum.AwesomeOscillator": {"p"}, "momentum.ChaikinOscillator": {"v", "v"}, "momentum.IchimokuCloud": {"p", "p", "p", "p", "p"},
	"momentum.Ppo": {"1", "1", "1"}, "momentum.Pvo": {"1", "1", "1"}, "momentum.Qstick": {"p"}, "momentum.Rsi": {"1"},
	"momentum.StochasticOscillator": {"1", "1"}, "momentum.StochasticRsi": {"1"}, "momentum.WilliamsR": {"1"},
	"volatility.AccelerationBands": {"p", "p", "p"}, "volatility.Atr": {"p"}, "volatility.BollingerBandWidth": {"1"}, "volatility.BollingerBands": {"in", "in", "in"},
	"volatility.ChandelierExit": {"p", "p"}, "volatility.DonchianChannel": {"in", "in", "in"}, "volatility.KeltnerChannel": {"p", "p", "p"}, "volatility.MovingStd": {"in"},
	"volatility.PercentB": {"1"}, "volatility.Po": {"1"}, "volatility.SuperTrend": {"p"}, "volatility.UlcerIndex": {"1"},
	"volume.Ad": {"v"}, "volume.Cmf": {"1"}, "volume.Emv": {"p*p/v"}, "volume.Fi": {"p*v"}, "volume.Mfi": {"1"}, "volume.Mfm": {"1"}, "volume.Mfv": {"v"},
	"volume.Nvi": {"1"}, "volume.Obv": {"v"}, "volume.Vpt": {"v"}, "volume.Vwap": {"p"},
}

func parseDeg(s string, in Deg) Deg {
	switch s {
	case "in":
		return in
	case "1":
		return dZero()
	}
	d := dZero()
	num := true
	for _, tok := range strings.FieldsFunc(s, func(r rune) bool { return r == '*' }) {
		parts := strings.Split(tok, "/")
		for i, p := range parts {
			sign := int64(1)
			if i > 0 || !num {
				sign = -1
			}
			d = dAdd(d, dVar(strings.TrimSpace(p)), sign)
		}
	}
	return d
}

// CheckC18: homogeneity typing of every indicator and strategy.
func CheckC18(c *Ctx) {
	run := c.Run
	run.Technique = "a type system for homogeneity degrees (price, volume) over the value terms of every indicator and strategy: constraint generation with linear degree forms, unification by Gaussian elimination; stateful closures and hand-written stages are typed by flow-insensitive inference over their bodies, sub-indicators through their own inferred signature"
	run.Explanation = "Every quantity gets a degree vector (price, volume) in Q^2: snapshot fields by their role, configuration values and non-zero literals degree 0 (the literal 0 is polymorphic), + - < > == max min and assignment require equal degrees, * adds, / subtracts, Pow(x,c) multiplies by c, Sqrt halves, rounding to fixed digits requires degree 0. The constraints are generated from the value terms the calculus derives for all 61 indicators and 40 strategies (closure bodies and hand-written loops included) and solved exactly. A solvable system means every output is a homogeneous function of that degree of the price and of the volume series, so multiplying all prices (or all volumes) by a positive constant scales each indicator by the corresponding power and changes no comparison outcome in any decision closure — the property over the reals, by induction over the composition. Checked in addition: each indicator's output degree is the one its documented formula dictates (table), thresholds and rounding touch degree-0 quantities only. Bit-exactness for power-of-two factors additionally needs absence of overflow and is not claimed."
	run.Trusted = []string{"go/types", "degree table rules.expectedDegrees (from the doc comments: averages/bands/differences scale with price, oscillators/ratios are unit-free, volume accumulators with volume, FI price*volume, EMV price^2/volume)", "configuration values are dimensionless"}
	inds := IndicatorComputes(c.P)
	run.Count("indicator_computes", len(inds))
	run.Floor("indicator_computes", 61)
	for _, fi := range inds {
		c.indicatorHomogeneity(fi)
	}
	strs := StrategyMethods(c.P, "Compute")
	run.Count("strategy_computes", len(strs))
	run.Floor("strategy_computes", 40)
	for _, fi := range strs {
		c.strategyHomogeneity(fi)
	}
}

func (c *Ctx) indicatorHomogeneity(fi *load.FuncInfo) {
	run := c.Run
	rs := c.Results(fi, Opts{Mode: shape.ModeContracts})
	if len(rs) == 0 {
		return
	}
	r := rs[0]
	site := r.RootName
	u := NewUnits()
	x := &unitCtx{c: c, u: u, terms: shape.NewTerms(c.P, r), r: r, srcDeg: map[string]Deg{}}
	var in Deg = dVar("p")
	generic := 0
	for _, ps := range r.ParamStreams {
		switch paramRole(origName(fi, ps.Param)) {
		case "Volume":
			x.srcDeg[ps.Param] = dVar("v")
		case "":
			x.srcDeg[ps.Param] = dVar("p") // a generic series is analysed as a price series (degree 1 in that input)
			generic++
		default:
			x.srcDeg[ps.Param] = dVar("p")
		}
	}
	if len(r.ParamStreams) == 1 && paramRole(origName(fi, r.ParamStreams[0].Param)) == "Volume" {
		in = dVar("v")
	}
	var outs []Deg
	for _, s := range retStreams(r) {
		outs = append(outs, x.term(x.terms.Of(s)))
	}
	sort.Strings(u.Conflicts)
	run.Oblige(len(u.Conflicts) == 0)
	seen := map[string]bool{}
	for _, cf := range u.Conflicts {
		if seen[cf] {
			continue
		}
		seen[cf] = true
		run.Violate(report.Finding{Rule: "homogeneity", Site: site, Detail: cf, Pos: c.P.Pos(fi.Decl.Pos()),
			Message: "quantities of different units are combined (" + cf + "): the result is not a homogeneous function of the prices and volumes, so rescaling the currency or the volume unit changes it in an undocumented way"})
	}
	tn := ""
	if r.Recv != nil {
		tn = r.Recv.TypeName()
	}
	want, has := expectedDegrees[tn]
	if !has {
		run.Oblige(false)
		run.Violate(report.Finding{Rule: "homogeneity/table", Site: site, Detail: "no expected degree", Pos: c.P.Pos(fi.Decl.Pos()), Message: "indicator " + tn + " has no entry in the expected-degree table"})
		return
	}
	if len(want) != len(outs) {
		run.Oblige(false)
		run.Violate(report.Finding{Rule: "homogeneity/table", Site: site, Detail: "output count", Pos: c.P.Pos(fi.Decl.Pos()), Message: fmt.Sprintf("%s has %d outputs, the degree table lists %d", tn, len(outs), len(want))})
		return
	}
	if len(u.Conflicts) > 0 {
		return
	}
	for i, o := range outs {
		got := u.resolve(o)
		w := parseDeg(want[i], in)
		ok := !got.Any && degEqual(got, w)
		if got.Any {
			ok = true
		}
		run.Oblige(ok)
		run.Sample(map[string]string{"obligation": fmt.Sprintf("degree(%s/out%d) = %s", site, i, w), "derived": got.String()})
		if !ok {
			run.Violate(report.Finding{Rule: "homogeneity/degree", Site: fmt.Sprintf("%s/out%d", site, i), Detail: got.String(), Pos: c.P.Pos(fi.Decl.Pos()),
				Message: fmt.Sprintf("the output scales as %s under a change of units, its documented formula dictates %s", got, w)})
		}
	}
}

func degEqual(a, b Deg) bool {
	d := dAdd(a, b, -1)
	for _, c := range d.M {
		if c.Cmp(new(big.Rat)) != 0 {
			return false
		}
	}
	return true
}

func (c *Ctx) strategyHomogeneity(fi *load.FuncInfo) {
	run := c.Run
	rs := c.Results(fi, Opts{Mode: shape.ModeContracts})
	if len(rs) == 0 {
		return
	}
	r := rs[0]
	site := r.RootName
	outs := retStreams(r)
	if len(outs) != 1 {
		return
	}
	u := NewUnits()
	x := &unitCtx{c: c, u: u, terms: shape.NewTerms(c.P, r), r: r, srcDeg: map[string]Deg{}}
	x.term(x.terms.Of(outs[0]))
	sort.Strings(u.Conflicts)
	run.Oblige(len(u.Conflicts) == 0)
	seen := map[string]bool{}
	for _, cf := range u.Conflicts {
		if seen[cf] {
			continue
		}
		seen[cf] = true
		run.Violate(report.Finding{Rule: "homogeneity/decision", Site: site, Detail: cf, Pos: c.P.Pos(fi.Decl.Pos()),
			Message: "the recommendation compares or combines quantities of different units (" + cf + "): it changes when all prices or all volumes are multiplied by a constant"})
	}
}
