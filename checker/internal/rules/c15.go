package rules

import (
	"fmt"
	"go/ast"
	"go/constant"
	"go/token"
	"go/types"
	"hash/fnv"
	"math/big"
	"sort"
	"strings"

	"verif/checker/internal/load"
	"verif/checker/internal/posit"
	"verif/checker/internal/report"
	"verif/checker/internal/shape"
	"verif/checker/internal/sym"
)

// rangeClaim: inequalities E >= 0 over the outputs (out0, out1, ...) and parameters of an indicator.
type rangeClaim struct {
	Type   string
	Claims []string
	Doc    string
	Aux    bool // a lemma used by other claims, not itself part of C15's statement
}

// RangeClaims transcribes C15's statement (and the auxiliary lemmas its proofs use).
var RangeClaims = []rangeClaim{
	{"momentum.Rsi", []string{"out0", "100 - out0"}, "RSI in [0,100]", false},
	{"volume.Mfi", []string{"out0", "100 - out0"}, "MFI in [0,100]", false},
	{"momentum.StochasticOscillator", []string{"out0", "100 - out0", "out1", "100 - out1"}, "Stochastic %K and %D in [0,100]", false},
	{"trend.Aroon", []string{"out0", "100 - out0", "out1", "100 - out1"}, "Aroon Up/Down in [0,100]", false},
	{"momentum.WilliamsR", []string{"out0 + 100", "0 - out0"}, "Williams %R in [-100,0]", false},
	{"momentum.StochasticRsi", []string{"out0", "1 - out0"}, "Stochastic RSI in [0,1]", false},
	{"volume.Mfm", []string{"out0 + 1", "1 - out0"}, "MFM in [-1,1]", false},
	{"volume.Cmf", []string{"out0 + 1", "1 - out0"}, "CMF in [-1,1]", false},
	{"trend.Bop", []string{"out0 + 1", "1 - out0"}, "BoP in [-1,1]", false},
	{"volatility.BollingerBands", []string{"out0 - out1", "out1 - out2", "out1"}, "upper >= middle >= lower (and the middle band of a positive series is positive)", false},
	{"volatility.KeltnerChannel", []string{"out0 - out1", "out1 - out2"}, "upper >= middle >= lower", false},
	{"volatility.DonchianChannel", []string{"out0 - out1", "out1 - out2"}, "upper >= middle >= lower", false},
	{"volatility.AccelerationBands", []string{"out0 - out1", "out1 - out2"}, "upper >= middle >= lower", false},
	{"trend.Envelope", []string{"out0 - out1", "out1 - out2"}, "upper >= middle >= lower", false},
	{"volatility.Atr", []string{"out0"}, "ATR >= 0", false},
	{"volatility.UlcerIndex", []string{"out0"}, "Ulcer index >= 0", false},
	{"volatility.BollingerBandWidth", []string{"out0"}, "band width >= 0", false},
	{"volume.Mfv", []string{"volumes - out0", "volumes + out0"}, "|MFV| <= volume", true},
	{"trend.TypicalPrice", []string{"out0 - low", "high - out0"}, "low <= typical price <= high", true},
}

// operator axioms: what is assumed of the primitive operators (each is the definition of the
// operator; their own numeric correctness is C01's/C17's subject).
var opAxioms = map[string]string{
	"trend.Sma": "averaging", "trend.Ema": "averaging", "trend.Rma": "averaging", "trend.Smma": "averaging", "trend.Ma": "averaging",
	"trend.MovingSum": "positive",
	"trend.MovingMax": "max", "trend.MovingMin": "min",
	"volatility.MovingStd": "nonneg",
}

type prover struct {
	c      *Ctx
	reg    map[string]sym.Expr
	roles  map[string]string // parameter -> role
	memo   map[string]bool
	depth  int
	bounds []*big.Rat // constants appearing as bounds in the claims
	used   map[string]bool
	work   int
}

func newProver(c *Ctx, params []string) *prover {
	p := &prover{c: c, reg: map[string]sym.Expr{}, roles: map[string]string{}, memo: map[string]bool{}, used: map[string]bool{}}
	for _, n := range params {
		p.roles[n] = paramRole(n)
	}
	for _, k := range []int64{0, 1, -1, 100, -100} {
		p.bounds = append(p.bounds, big.NewRat(k, 1))
	}
	return p
}

// ge0: e >= 0 wherever it is defined (zero denominators are exempt by C15's statement).
func (p *prover) ge0(e sym.Expr, facts []sym.Poly) bool {
	key := sym.CanonString(e) + "|" + factsKey(facts)
	if v, ok := p.memo[key]; ok {
		return v
	}
	p.memo[key] = false // cycles fail
	if p.depth > 5 {
		return false
	}
	p.depth++
	defer func() { p.depth-- }()
	r := sym.CanonReg(e, p.reg)
	ok := false
	if r.IsConstDen() {
		ok = p.polyGE0(r.Num, facts)
	} else {
		switch {
		case p.polyGE0(r.Den, facts):
			ok = p.polyGE0(r.Num, facts)
		case p.polyGE0(negPoly(r.Den), facts):
			ok = p.polyGE0(negPoly(r.Num), facts)
		}
	}
	p.memo[key] = ok
	return ok
}

func negPoly(a sym.Poly) sym.Poly { return sym.PMul(a, sym.PConst(big.NewRat(-1, 1))) }

func factsKey(fs []sym.Poly) string {
	var ks []string
	for _, f := range fs {
		ks = append(ks, f.Key())
	}
	sort.Strings(ks)
	return strings.Join(ks, ";")
}

func (p *prover) polyExpr(a sym.Poly) sym.Expr {
	var out sym.Expr
	for _, t := range a.Terms() {
		var m sym.Expr = sym.Num{V: t.Coef}
		var names []string
		for n := range t.Factors {
			names = append(names, n)
		}
		sort.Strings(names)
		for _, n := range names {
			at, ok := p.reg[n]
			if !ok {
				at = sym.V(n)
			}
			for i := 0; i < t.Factors[n]; i++ {
				m = sym.Mul(m, at)
			}
		}
		if out == nil {
			out = m
		} else {
			out = sym.Add(out, m)
		}
	}
	if out == nil {
		return sym.N(0)
	}
	return out
}

// polyGE0 proves t >= 0 from the facts and the axioms of the atoms it mentions.
func (p *prover) polyGE0(t sym.Poly, facts []sym.Poly) bool {
	if t.IsZero() {
		return true
	}
	p.work++
	if p.work > 4000 {
		return false
	}
	// constant
	ts := t.Terms()
	if len(ts) == 1 && len(ts[0].Factors) == 0 {
		return ts[0].Coef.Sign() >= 0
	}
	gens := append([]sym.Poly{}, facts...)
	gens = append(gens, p.axioms(t, facts)...)
	// deduplicate
	seen := map[string]bool{}
	var gs []sym.Poly
	for _, g := range gens {
		if g.IsZero() || seen[g.Key()] {
			continue
		}
		seen[g.Key()] = true
		gs = append(gs, g)
	}
	if combine(t, gs) {
		return true
	}
	// case split on a conditional that occurs as a factor (the facts are rewritten as well)
	var iteNames []string
	for _, tm := range ts {
		for n := range tm.Factors {
			if _, ok := p.reg[n].(sym.Ite); ok {
				iteNames = append(iteNames, n)
			}
		}
	}
	sort.Strings(iteNames)
	if len(iteNames) > 0 {
		n := iteNames[0]
		ite := p.reg[n].(sym.Ite)
		posF, negF := condFacts(ite.Cond, p)
		branch := func(with sym.Expr, extra []sym.Poly) bool {
			var fs []sym.Poly
			for _, f := range facts {
				r := sym.CanonReg(sym.Subst2(p.polyExpr(f), n, with), p.reg)
				if r.IsConstDen() {
					fs = append(fs, r.Num)
				}
			}
			fs = append(fs, extra...)
			return p.ge0(sym.Subst2(p.polyExpr(t), n, with), fs)
		}
		return branch(ite.A, posF) && branch(ite.B, negF)
	}
	// degree 2: pairwise products of the generators
	if len(gs) <= 40 {
		g2 := append([]sym.Poly{}, gs...)
		for i := 0; i < len(gs); i++ {
			for j := i; j < len(gs); j++ {
				g2 = append(g2, sym.PMul(gs[i], gs[j]))
			}
		}
		if combine(t, g2) {
			return true
		}
	}
	return false
}

func combine(t sym.Poly, gens []sym.Poly) bool {
	vec := func(a sym.Poly) posit.Vec {
		v := posit.Vec{}
		for _, tm := range a.Terms() {
			v[sym.MonoKey(tm.Factors)] = tm.Coef
		}
		return v
	}
	var gv []posit.Vec
	for _, g := range gens {
		gv = append(gv, vec(g))
	}
	return posit.Combine(vec(t), gv) != nil
}

// condFacts: the polynomial facts a branch condition (and its negation) provides.
func condFacts(c sym.Expr, p *prover) (pos, neg []sym.Poly) {
	switch x := c.(type) {
	case sym.Cmp:
		d := sym.CanonReg(sym.Sub(x.L, x.R), p.reg)
		if !d.IsConstDen() {
			return nil, nil
		}
		switch x.Op {
		case "<", "<=":
			return []sym.Poly{negPoly(d.Num)}, []sym.Poly{d.Num}
		case ">", ">=":
			return []sym.Poly{d.Num}, []sym.Poly{negPoly(d.Num)}
		case "==":
			return []sym.Poly{d.Num, negPoly(d.Num)}, nil
		case "!=":
			return nil, []sym.Poly{d.Num, negPoly(d.Num)}
		}
	case sym.Logic:
		if x.Op == "&&" {
			for _, a := range x.Args {
				pf, _ := condFacts(a, p)
				pos = append(pos, pf...)
			}
			return pos, nil
		}
		if x.Op == "||" {
			for _, a := range x.Args {
				_, nf := condFacts(a, p)
				neg = append(neg, nf...)
			}
			return nil, neg
		}
		if x.Op == "!" && len(x.Args) == 1 {
			a, b := condFacts(x.Args[0], p)
			return b, a
		}
	}
	return nil, nil
}

func opOf(fn string) (typ, inst string) {
	if !strings.HasPrefix(fn, "ind:") {
		return "", ""
	}
	return indTypeOf(fn), fn
}

// axioms generates the non-negative polynomials that hold of the atoms occurring in t (and in
// the atoms those facts introduce, two rounds).
func (p *prover) axioms(t sym.Poly, facts []sym.Poly) []sym.Poly {
	atoms := map[string]bool{}
	add := func(a sym.Poly) {
		for _, tm := range a.Terms() {
			for n := range tm.Factors {
				atoms[n] = true
			}
		}
	}
	add(t)
	for _, f := range facts {
		add(f)
	}
	var out []sym.Poly
	done := map[string]bool{}
	one := func(e sym.Expr) sym.Poly {
		r := sym.CanonReg(e, p.reg)
		if !r.IsConstDen() {
			return nil
		}
		return r.Num
	}
	emit := func(e sym.Expr) {
		if q := one(e); q != nil {
			out = append(out, q)
			add(q)
		}
	}
	for round := 0; round < 3; round++ {
		var names []string
		for n := range atoms {
			if !done[n] {
				names = append(names, n)
			}
		}
		sort.Strings(names)
		if len(names) == 0 {
			break
		}
		delays := map[string]sym.Expr{}
		for _, n := range names {
			done[n] = true
			at := p.reg[n]
			switch x := at.(type) {
			case sym.Var:
				switch {
				case strings.HasPrefix(x.Name, "src:"):
					delays[""] = nil
				case strings.HasPrefix(x.Name, "cfg:"):
					emit(x) // admissible configurations are non-negative
					if strings.HasSuffix(x.Name, "Period") {
						emit(sym.Sub(x, sym.N(1)))
					}
				}
			case sym.Call:
				switch {
				case x.Fn == "at" && len(x.Args) == 2:
					delays[sym.CanonString(x.Args[1])] = x.Args[1]
				case x.Fn == "abs" && len(x.Args) == 1:
					emit(x)
					emit(sym.Sub(x, x.Args[0]))
					emit(sym.Add(x, x.Args[0]))
				case x.Fn == "sqrt":
					emit(x)
				case x.Fn == "max":
					for _, a := range x.Args {
						emit(sym.Sub(x, a))
					}
				case x.Fn == "min":
					for _, a := range x.Args {
						emit(sym.Sub(a, x))
					}
				case x.Fn == "closure:helper.Since#1":
					emit(x) // a count
				case x.Fn == "RoundDigit" && len(x.Args) == 2:
					// rounding to whole numbers keeps whole-number bounds
					if k, ok := x.Args[1].(sym.Num); ok && k.V.Sign() == 0 {
						for _, b := range p.bounds {
							if p.ge0(sym.Sub(x.Args[0], sym.Num{V: b}), facts) {
								emit(sym.Sub(x, sym.Num{V: b}))
							}
							if p.ge0(sym.Sub(sym.Num{V: b}, x.Args[0]), facts) {
								emit(sym.Sub(sym.Num{V: b}, x))
							}
						}
					}
				case strings.HasPrefix(x.Fn, "ind:"):
					p.indAxioms(x, facts, emit, atoms)
				}
			}
		}
		// validity of the inputs, per delay
		var dk []string
		for k := range delays {
			dk = append(dk, k)
		}
		sort.Strings(dk)
		for _, k := range dk {
			p.validity(delays[k], emit)
		}
	}
	return out
}

// validity: low <= open, close <= high, positive prices, non-negative volume, at one delay.
func (p *prover) validity(d sym.Expr, emit func(sym.Expr)) {
	src := func(n string) sym.Expr {
		var e sym.Expr = sym.V("src:" + n)
		if d != nil {
			e = sym.Call{Fn: "at", Args: []sym.Expr{e, d}}
		}
		return e
	}
	byRole := map[string][]string{}
	var names []string
	for n := range p.roles {
		names = append(names, n)
	}
	sort.Strings(names)
	for _, n := range names {
		byRole[p.roles[n]] = append(byRole[p.roles[n]], n)
		emit(src(n)) // prices are positive, volumes non-negative; a generic series is analysed as a price series
	}
	le := func(a, b string) {
		for _, x := range byRole[a] {
			for _, y := range byRole[b] {
				emit(sym.Sub(src(y), src(x)))
			}
		}
	}
	le("Low", "High")
	le("Low", "Open")
	le("Low", "Close")
	le("Open", "High")
	le("Close", "High")
}

func (p *prover) indAxioms(x sym.Call, facts []sym.Poly, emit func(sym.Expr), atoms map[string]bool) {
	typ := indTypeOf(x.Fn)
	switch opAxioms[typ] {
	case "max":
		if len(x.Args) == 1 {
			emit(sym.Sub(x, x.Args[0]))
		}
		return
	case "min":
		if len(x.Args) == 1 {
			emit(sym.Sub(x.Args[0], x))
		}
		return
	case "nonneg":
		emit(x)
		return
	case "averaging", "positive":
		if len(x.Args) != 1 {
			return
		}
		arg := x.Args[0]
		if p.ge0(arg, facts) {
			emit(x)
		}
		if p.ge0(sym.Neg{X: arg}, facts) {
			emit(sym.Neg{X: x})
		}
		if opAxioms[typ] == "averaging" {
			for _, b := range p.bounds {
				if b.Sign() == 0 {
					continue
				}
				if p.ge0(sym.Sub(arg, sym.Num{V: b}), facts) {
					emit(sym.Sub(x, sym.Num{V: b}))
				}
				if p.ge0(sym.Sub(sym.Num{V: b}, arg), facts) {
					emit(sym.Sub(sym.Num{V: b}, x))
				}
			}
		}
		// linearity and monotonicity against the other applications of the same operator
		var others []string
		for n := range atoms {
			if o, ok := p.reg[n].(sym.Call); ok && o.Fn == x.Fn && len(o.Args) == 1 && n != sym.CanonString(x) {
				others = append(others, n)
			}
		}
		sort.Strings(others)
		for _, n := range others {
			if n < sym.CanonString(x) {
				continue // each pair once
			}
			o := p.reg[n].(sym.Call)
			for _, sg := range [][2]int64{{1, -1}, {-1, 1}, {1, 1}, {-1, -1}} {
				comb := sym.Add(sym.Mul(sym.N(sg[0]), arg), sym.Mul(sym.N(sg[1]), o.Args[0]))
				if p.ge0(comb, facts) {
					emit(sym.Add(sym.Mul(sym.N(sg[0]), x), sym.Mul(sym.N(sg[1]), o)))
				}
			}
		}
		return
	}
	// a composite indicator: instantiate its lemmas when its arguments are the inputs its
	// parameters designate
	for _, rc := range RangeClaims {
		if rc.Type != typ {
			continue
		}
		params := indicatorParamNames(p.c.P, typ)
		if pn, ok := pinnedParams[typ]; ok && len(pn) == len(params) {
			params = pn
		}
		if len(params) != len(x.Args) {
			return
		}
		for i, pn := range params {
			want := paramRole(pn)
			got := p.argRole(x.Args[i])
			if want == "" {
				// a generic input: the lemma assumes a positive series
				if !p.ge0(x.Args[i], facts) {
					return
				}
				continue
			}
			if got != want {
				return
			}
		}
		// all role arguments must be of one day
		var day string
		for i, a := range x.Args {
			d := delayOf(a)
			if i > 0 && d != day && paramRole(params[i]) != "" {
				return
			}
			day = d
		}
		env := &specEnv{locals: map[string]bool{}}
		sub := map[string]sym.Expr{}
		nout := 0
		for _, cl := range rc.Claims {
			for k := 0; k < 6; k++ {
				if strings.Contains(cl, fmt.Sprintf("out%d", k)) && k+1 > nout {
					nout = k + 1
				}
			}
		}
		base := x.Fn[:strings.LastIndex(x.Fn, "#")]
		for k := 0; k < nout; k++ {
			name := fmt.Sprintf("out%d", k)
			env.locals[name] = true
			sub[name] = sym.Call{Fn: fmt.Sprintf("%s#%d", base, k), Args: x.Args}
		}
		for i, pn := range params {
			env.locals[pn] = true
			sub[pn] = x.Args[i]
		}
		for _, cl := range rc.Claims {
			e, err := env.parse(cl)
			if err != nil {
				continue
			}
			emit(sym.Subst(e, sub))
		}
	}
}

func delayOf(e sym.Expr) string {
	if c, ok := e.(sym.Call); ok && c.Fn == "at" && len(c.Args) == 2 {
		return sym.CanonString(c.Args[1])
	}
	return ""
}

// argRole: the role of an argument that is an input series of the root (possibly delayed).
func (p *prover) argRole(e sym.Expr) string {
	switch x := e.(type) {
	case sym.Var:
		if strings.HasPrefix(x.Name, "src:") {
			return p.roles[x.Name[4:]]
		}
	case sym.Call:
		if x.Fn == "at" && len(x.Args) == 2 {
			return p.argRole(x.Args[0])
		}
	}
	return "?"
}

// CheckC15: ranges and band order by a sign/range proof over the value terms.
func CheckC15(c *Ctx) {
	run := c.Run
	run.Technique = "range proof over value terms: each claimed bound is reduced, on the rational-function normal form of the indicator's derived term, to polynomial non-negativity and discharged by an exact linear-programming certificate (degree <= 2 products) from the validity of the inputs and the axioms of the primitive operators; conditionals are split by cases, sub-indicators enter through their own proved lemmas"
	run.Explanation = "For every bound in C15's statement the check takes the term the calculus derives for that output (the one C01 compares with the documented formula), writes `bound - value` as N/D over atoms (input series at a day, primitive operator applications), determines the sign of D and proves the sign of N as a non-negative combination of: low <= open, close <= high, prices > 0, volume >= 0 at each day; |x| >= +-x; max/min bounds; MovingMax(x) >= x >= MovingMin(x); positivity, linearity and (for averages) constant-preservation of Sma/Ema/Rma/Smma/MovingSum; MovingStd >= 0; rounding to whole numbers keeps whole bounds. A certificate is an identity of polynomials, so the bound holds for every series and configuration wherever the formula is defined; positions with a zero denominator are exempt as in the statement. Not decided: that the window operators really return the window extreme (the axiom MovingMin <= value <= MovingMax is C15's own clause for them and is assumed, C17 covers the search tree), floating-point rounding, and Atr/Envelope/SuperTrend configured with a non-averaging moving average (Dema, Tema, Hma). The radicand of the standard deviation is non-negative by construction (sums, products and quotients of even powers, squares and periods), and for the indicators with a range claim the computed expression has the documented formula's value at the probed limit points (a denominator atom at +0/-0): a bound proved over the reals does not cover a NaN."
	run.Trusted = []string{"go/types", "value terms of the stream calculus (C01 formula rule)", "operator axioms rules.opAxioms", "claims table rules.RangeClaims (from C15's statement)", "exact simplex over big rationals (internal/posit)", "configuration parameters are non-negative, periods >= 1"}
	for op, ax := range opAxioms {
		run.Assume("operator " + op + ": " + ax)
	}
	claims := map[string]rangeClaim{}
	for _, rc := range RangeClaims {
		claims[rc.Type] = rc
	}
	proved := 0
	for _, fi := range IndicatorComputes(c.P) {
		rs := c.Results(fi, Opts{Mode: shape.ModeContracts})
		if len(rs) == 0 {
			continue
		}
		r := rs[0]
		if r.Recv == nil {
			continue
		}
		rc, ok := claims[r.Recv.TypeName()]
		if !ok {
			continue
		}
		run.Count("indicators", 1)
		c.rangeClaims(fi, r, rc, &proved)
	}
	run.Count("bounds_proved", proved)
	run.Floor("indicators", len(RangeClaims))
	c.stdNonNegative()
	c.rangeLimits()
	// the axiom MovingMin(x) <= x <= MovingMax(x) rests on the window closures inserting every new
	// value exactly once, removing only the value that left, and returning the tree's extreme
	c.windowExtremes()
}

func (c *Ctx) rangeClaims(fi *load.FuncInfo, r *shape.Result, rc rangeClaim, proved *int) {
	run := c.Run
	outs := retStreams(r)
	tm := shape.NewTerms(c.P, r)
	var params []string
	for _, ps := range r.ParamStreams {
		params = append(params, ps.Param)
	}
	env := &specEnv{r: r, params: specParams(fi, params), locals: map[string]bool{}}
	sub := map[string]sym.Expr{}
	for i, o := range outs {
		n := fmt.Sprintf("out%d", i)
		env.locals[n] = true
		sub[n] = tm.Of(o)
	}
	for _, cl := range rc.Claims {
		site := r.RootName + ": " + cl + " >= 0"
		e, err := env.parse(cl)
		if err != nil {
			c.violate("range", site, "claim not evaluable", fi.Decl.Pos(), "the claim refers to an output or parameter the indicator does not have: "+err.Error())
			continue
		}
		e = sym.Subst(e, sub)
		p := newProver(c, params)
		for _, pn := range params {
			p.roles[pn] = paramRole(origName(fi, pn)) // roles come from the pinned names, by position
		}
		ok := p.ge0(e, nil)
		run.Oblige(ok)
		run.Count("bounds", 1)
		run.Sample(map[string]string{"obligation": site + " (" + rc.Doc + ")", "verdict": fmt.Sprint(ok), "lp_calls": fmt.Sprint(p.work)})
		if ok {
			*proved++
			continue
		}
		rh := fnv.New32a()
		rh.Write([]byte(sym.CanonString(e)))
		run.Violate(report.Finding{Rule: "range", Site: site, Detail: fmt.Sprintf("%s #%08x", short(sym.CanonString(e), 120), rh.Sum32()), Pos: c.P.Pos(fi.Decl.Pos()),
			Message: fmt.Sprintf("%s: no proof that %s >= 0 for the value this indicator computes (%s); the inputs' validity and the operators' axioms do not imply it", rc.Doc, cl, short(sym.CanonString(e), 260))})
	}
}

// stdNonNegative: the value MovingStd sends is a square root (the `nonneg` axiom's justification).
func (c *Ctx) stdNonNegative() {
	fi := c.fn("volatility", "MovingStd", "Compute")
	if fi == nil {
		return
	}
	ok := sendsAreSqrt(fi)
	c.Run.Oblige(ok)
	if !ok {
		c.violate("range/std", "volatility.(*MovingStd).Compute", "sent value is not a square root", fi.Decl.Pos(), "the standard deviation sent is no longer the result of math.Sqrt: its non-negativity (and that of the Bollinger band width) is not established")
	}
	// the radicand is non-negative by construction (a sum of squares over a positive count): a
	// difference such as E[x^2] - E[x]^2 is non-negative only in exact arithmetic, in floating
	// point it cancels to a small negative number on a flat window and the square root is NaN
	info := fi.Pkg.TypesInfo
	nonNegDecls = func(fn *types.Func) *ast.FuncDecl {
		if d := c.P.Decls[fn.Origin()]; d != nil && d.Pkg == fi.Pkg {
			return d.Decl
		}
		return nil
	}
	nSqrt := 0
	ast.Inspect(fi.Decl.Body, func(n ast.Node) bool {
		call, isCall := n.(*ast.CallExpr)
		if !isCall || calleeName(info, call) != "math.Sqrt" || len(call.Args) != 1 {
			return true
		}
		nSqrt++
		why := nonNegative(info, fi.Decl.Body, call.Args[0], 0)
		c.Run.Oblige(why == "")
		if why != "" {
			c.violate("range/std", "volatility.(*MovingStd).Compute", "radicand "+short(why, 60), call.Pos(), "the argument of math.Sqrt is not non-negative by construction ("+why+"): when rounding makes it negative the standard deviation, and with it both Bollinger bands and the band width, are NaN")
		}
		return true
	})
	c.Run.Count("std_radicands", nSqrt)
	c.Run.Floor("std_radicands", 1)
}

// nonNegDecls resolves a function of the package to its declaration (set by the caller).
var nonNegDecls func(fn *types.Func) *ast.FuncDecl

// nonNegative: "" when e is non-negative by construction - a non-negative constant, an even
// power or a product of an expression with itself, an absolute value, a sum, product or quotient
// of such, a configuration period, or a variable all of whose assignments in body are of these
// forms (= and += only). Otherwise the sub-expression that is not.
func nonNegative(info *types.Info, body *ast.BlockStmt, e ast.Expr, depth int) string {
	e = ast.Unparen(e)
	if depth > 14 {
		return exprString(e)
	}
	if tv, ok := info.Types[e]; ok && tv.Value != nil {
		if constant.Sign(tv.Value) >= 0 {
			return ""
		}
		return exprString(e)
	}
	switch x := e.(type) {
	case *ast.CallExpr:
		if tv, ok := info.Types[x.Fun]; ok && tv.IsType() && len(x.Args) == 1 {
			return nonNegative(info, body, x.Args[0], depth+1)
		}
		switch calleeName(info, x) {
		case "math.Abs", "math.Sqrt":
			return ""
		case "math.Pow":
			if len(x.Args) == 2 {
				if tv, ok := info.Types[x.Args[1]]; ok && tv.Value != nil {
					if v, exact := constant.Int64Val(constant.ToInt(tv.Value)); exact && v%2 == 0 {
						return ""
					}
				}
			}
		}
		// an unexported helper of the package made of one returned expression
		if fn := callee(info, x); fn != nil && !fn.Exported() && nonNegDecls != nil {
			if d := nonNegDecls(fn); d != nil {
				if in := returnedExpr(info, d, x.Args); in != nil {
					return nonNegative(info, d.Body, in, depth+1)
				}
				// a helper that accumulates and returns a local: that local, inside the helper
				if nb := len(d.Body.List); nb > 0 {
					if r, isRet := d.Body.List[nb-1].(*ast.ReturnStmt); isRet && len(r.Results) == 1 {
						only := true
						ast.Inspect(d.Body, func(n ast.Node) bool {
							if rr, isR := n.(*ast.ReturnStmt); isR && rr != r {
								only = false
							}
							return only
						})
						if only {
							return nonNegative(info, d.Body, r.Results[0], depth+1)
						}
					}
				}
			}
		}
		return exprString(e)
	case *ast.BinaryExpr:
		switch x.Op {
		case token.MUL:
			if exprString(ast.Unparen(x.X)) == exprString(ast.Unparen(x.Y)) && callFree(info, x.X) {
				return ""
			}
			fallthrough
		case token.ADD, token.QUO:
			if w := nonNegative(info, body, x.X, depth+1); w != "" {
				return w
			}
			return nonNegative(info, body, x.Y, depth+1)
		}
		return exprString(e)
	case *ast.SelectorExpr:
		// a period of the configuration (positive for admissible configurations)
		if v, ok := info.ObjectOf(x.Sel).(*types.Var); ok && v.IsField() && strings.Contains(x.Sel.Name, "Period") {
			return ""
		}
		return exprString(e)
	case *ast.Ident:
		obj := info.ObjectOf(x)
		if obj == nil {
			return exprString(e)
		}
		assigned, why := 0, ""
		ast.Inspect(body, func(n ast.Node) bool {
			switch s := n.(type) {
			case *ast.AssignStmt:
				for i, l := range s.Lhs {
					id, ok := l.(*ast.Ident)
					if !ok || info.ObjectOf(id) != obj {
						continue
					}
					assigned++
					if len(s.Lhs) != len(s.Rhs) || (s.Tok != token.ASSIGN && s.Tok != token.DEFINE && s.Tok != token.ADD_ASSIGN) {
						why = exprString(e) + " is updated by " + s.Tok.String()
						continue
					}
					if w := nonNegative(info, body, s.Rhs[i], depth+1); w != "" && why == "" {
						why = w
					}
				}
			case *ast.IncDecStmt:
				if id, ok := s.X.(*ast.Ident); ok && info.ObjectOf(id) == obj && s.Tok == token.DEC {
					why = exprString(e) + "--"
				}
			case *ast.UnaryExpr:
				if id, ok := s.X.(*ast.Ident); ok && s.Op == token.AND && info.ObjectOf(id) == obj {
					why = "&" + exprString(e)
				}
			}
			return true
		})
		if assigned == 0 && why == "" {
			return exprString(e)
		}
		return why
	}
	return exprString(e)
}

// sendsAreSqrt: every value the stage sends is (a conversion of) a math.Sqrt call, directly or
// through a local defined by one.
func sendsAreSqrt(fi *load.FuncInfo) bool {
	info := fi.Pkg.TypesInfo
	isSqrt := func(e ast.Expr) bool {
		for {
			switch x := e.(type) {
			case *ast.ParenExpr:
				e = x.X
				continue
			case *ast.CallExpr:
				if tv, ok := info.Types[x.Fun]; ok && tv.IsType() && len(x.Args) == 1 {
					e = x.Args[0]
					continue
				}
				return calleeName(info, x) == "math.Sqrt"
			}
			return false
		}
	}
	defs := map[types.Object]ast.Expr{}
	ast.Inspect(fi.Decl.Body, func(n ast.Node) bool {
		if as, ok := n.(*ast.AssignStmt); ok && len(as.Lhs) == len(as.Rhs) {
			for i, l := range as.Lhs {
				if id, ok := l.(*ast.Ident); ok {
					if o := info.ObjectOf(id); o != nil {
						if _, dup := defs[o]; dup {
							defs[o] = nil // assigned more than once: not a single definition
						} else {
							defs[o] = as.Rhs[i]
						}
					}
				}
			}
		}
		return true
	})
	sends, ok := 0, true
	ast.Inspect(fi.Decl.Body, func(n ast.Node) bool {
		s, isSend := n.(*ast.SendStmt)
		if !isSend {
			return true
		}
		sends++
		v := s.Value
		if id, isID := v.(*ast.Ident); isID {
			if d := defs[info.ObjectOf(id)]; d != nil {
				v = d
			}
		}
		if !isSqrt(v) {
			ok = false
		}
		return true
	})
	return ok && sends > 0
}
