package lin

import "testing"

func TestBasic(t *testing.T) {
	n, p, q := V("n"), V("P"), V("Q")
	g := &Ctx{Cs: []Term{Var("n"), Var("P").Add(Const(-1)), Var("Q").Add(Const(-1))}}
	// max(0, max(0, n-(P-1)) - (Q-1)) == max(0, n - P - Q + 2)
	a := Pos(Sub(Pos(Sub(n, AddC(p, -1))), AddC(q, -1)))
	b := Pos(AddC(Sub(Sub(n, p), q), 2))
	if !ProveEQ(g, a, b) {
		t.Fatal("eq1")
	}
	c := Pos(AddC(Sub(Sub(n, p), q), 3))
	if ProveEQ(g, a, c) {
		t.Fatal("eq2 should fail")
	}
	w := FindWitness(g, []Sym{"n", "P", "Q"}, nil, map[Sym]int64{"n": 20}, 0, 6, func(env map[Sym]int64) bool { return a.Eval(env) != c.Eval(env) })
	if w == nil {
		t.Fatal("no witness")
	}
	t.Log(w, Simplify(g, a))
	// ema phantom: 1 + max(0, n-P) vs max(0, n-P+1)
	e1 := AddC(Pos(Sub(n, p)), 1)
	e2 := Pos(AddC(Sub(n, p), 1))
	if ProveEQ(g, e1, e2) {
		t.Fatal("phantom should differ")
	}
	if !ProveGE(g, e1, e2) {
		t.Fatal("ge")
	}
	it := Ite(Sub(n, p).T, AddC(Sub(n, p), 1), C(0))
	if !ProveEQ(g, it, e2) {
		t.Fatal("ite")
	}
	t.Log(Simplify(g, it))
}
