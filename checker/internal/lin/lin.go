// Package lin is the exact arithmetic used for side conditions: linear integer
// terms over configuration symbols, piecewise-linear expressions (max/min/ite),
// a Fourier–Motzkin infeasibility test over the rationals, and a bounded
// integer witness search. It is arithmetic on the analyser's own summaries; no
// program path is ever encoded here.
package lin

import (
	"fmt"
	"sort"
	"strings"
)

// Sym is a configuration symbol (receiver access path, "n", opaque call result).
type Sym string

// Term is c + Σ m[s]·s with integer coefficients.
type Term struct {
	C int64
	M map[Sym]int64
}

func Const(c int64) Term { return Term{C: c} }
func Var(s Sym) Term     { return Term{M: map[Sym]int64{s: 1}} }

func (t Term) clone() Term {
	r := Term{C: t.C}
	if len(t.M) > 0 {
		r.M = make(map[Sym]int64, len(t.M))
		for k, v := range t.M {
			r.M[k] = v
		}
	}
	return r
}

const big = int64(1) << 40

func chk(v int64) int64 {
	if v > big || v < -big {
		panic("lin: coefficient overflow")
	}
	return v
}

func (t Term) Add(u Term) Term {
	r := t.clone()
	r.C = chk(r.C + u.C)
	for k, v := range u.M {
		if r.M == nil {
			r.M = map[Sym]int64{}
		}
		nv := chk(r.M[k] + v)
		if nv == 0 {
			delete(r.M, k)
		} else {
			r.M[k] = nv
		}
	}
	return r
}

func (t Term) Scale(k int64) Term {
	if k == 0 {
		return Term{}
	}
	r := Term{C: chk(t.C * k)}
	if len(t.M) > 0 {
		r.M = make(map[Sym]int64, len(t.M))
		for s, v := range t.M {
			r.M[s] = chk(v * k)
		}
	}
	return r
}

func (t Term) Neg() Term       { return t.Scale(-1) }
func (t Term) Sub(u Term) Term { return t.Add(u.Neg()) }
func (t Term) IsConst() bool   { return len(t.M) == 0 }

func (t Term) Syms() []Sym {
	r := make([]Sym, 0, len(t.M))
	for s := range t.M {
		r = append(r, s)
	}
	sort.Slice(r, func(i, j int) bool { return r[i] < r[j] })
	return r
}

func (t Term) String() string {
	var sb strings.Builder
	first := true
	for _, s := range t.Syms() {
		v := t.M[s]
		switch {
		case v == 1 && first:
			sb.WriteString(string(s))
		case v == 1:
			sb.WriteString(" + " + string(s))
		case v == -1 && first:
			sb.WriteString("-" + string(s))
		case v == -1:
			sb.WriteString(" - " + string(s))
		case v < 0 && !first:
			fmt.Fprintf(&sb, " - %d*%s", -v, s)
		case first:
			fmt.Fprintf(&sb, "%d*%s", v, s)
		default:
			fmt.Fprintf(&sb, " + %d*%s", v, s)
		}
		first = false
	}
	if first {
		return fmt.Sprint(t.C)
	}
	if t.C > 0 {
		fmt.Fprintf(&sb, " + %d", t.C)
	} else if t.C < 0 {
		fmt.Fprintf(&sb, " - %d", -t.C)
	}
	return sb.String()
}

func (t Term) Eval(env map[Sym]int64) int64 {
	r := t.C
	for s, v := range t.M {
		r += v * env[s]
	}
	return r
}

// ---------------------------------------------------------------------------
// Piecewise-linear expressions.

type Kind int

const (
	KLin Kind = iota
	KMax
	KMin
	KIte // Cond >= 0 ? A : B
	KAdd // A + B with both operands piecewise
)

type Expr struct {
	K    Kind
	T    Term  // KLin
	A, B *Expr // KMax, KMin, KIte
	Cond Term  // KIte: Cond >= 0
}

func L(t Term) *Expr        { return &Expr{K: KLin, T: t} }
func C(c int64) *Expr       { return L(Const(c)) }
func V(s Sym) *Expr         { return L(Var(s)) }
func (e *Expr) IsLin() bool { return e.K == KLin }

func Max(a, b *Expr) *Expr {
	if a.K == KLin && b.K == KLin {
		d := a.T.Sub(b.T)
		if d.IsConst() {
			if d.C >= 0 {
				return a
			}
			return b
		}
	}
	return &Expr{K: KMax, A: a, B: b}
}

func Min(a, b *Expr) *Expr {
	if a.K == KLin && b.K == KLin {
		d := a.T.Sub(b.T)
		if d.IsConst() {
			if d.C <= 0 {
				return a
			}
			return b
		}
	}
	return &Expr{K: KMin, A: a, B: b}
}

func Ite(cond Term, a, b *Expr) *Expr {
	if cond.IsConst() {
		if cond.C >= 0 {
			return a
		}
		return b
	}
	return &Expr{K: KIte, Cond: cond, A: a, B: b}
}

// Pos is max(0, e).
func Pos(e *Expr) *Expr { return Max(C(0), e) }

func Add(a, b *Expr) *Expr {
	switch {
	case a.K == KLin && b.K == KLin:
		return L(a.T.Add(b.T))
	case a.K != KLin && b.K != KLin:
		return &Expr{K: KAdd, A: a, B: b}
	case a.K != KLin:
		switch a.K {
		case KMax:
			return Max(Add(a.A, b), Add(a.B, b))
		case KMin:
			return Min(Add(a.A, b), Add(a.B, b))
		case KAdd:
			return &Expr{K: KAdd, A: Add(a.A, b), B: a.B}
		default:
			return Ite(a.Cond, Add(a.A, b), Add(a.B, b))
		}
	default:
		return Add(b, a)
	}
}

func Neg(a *Expr) *Expr {
	switch a.K {
	case KLin:
		return L(a.T.Neg())
	case KMax:
		return Min(Neg(a.A), Neg(a.B))
	case KMin:
		return Max(Neg(a.A), Neg(a.B))
	case KAdd:
		return &Expr{K: KAdd, A: Neg(a.A), B: Neg(a.B)}
	default:
		return Ite(a.Cond, Neg(a.A), Neg(a.B))
	}
}

func Sub(a, b *Expr) *Expr        { return Add(a, Neg(b)) }
func AddC(a *Expr, c int64) *Expr { return Add(a, C(c)) }

func Scale(a *Expr, k int64) *Expr {
	switch {
	case k == 0:
		return C(0)
	case k < 0:
		return Scale(Neg(a), -k)
	}
	switch a.K {
	case KLin:
		return L(a.T.Scale(k))
	case KMax:
		return Max(Scale(a.A, k), Scale(a.B, k))
	case KMin:
		return Min(Scale(a.A, k), Scale(a.B, k))
	case KAdd:
		return &Expr{K: KAdd, A: Scale(a.A, k), B: Scale(a.B, k)}
	default:
		return Ite(a.Cond, Scale(a.A, k), Scale(a.B, k))
	}
}

func (e *Expr) String() string {
	switch e.K {
	case KLin:
		return e.T.String()
	case KMax:
		return "max(" + e.A.String() + ", " + e.B.String() + ")"
	case KMin:
		return "min(" + e.A.String() + ", " + e.B.String() + ")"
	case KAdd:
		return "(" + e.A.String() + " + " + e.B.String() + ")"
	default:
		return "ite(" + e.Cond.String() + " >= 0, " + e.A.String() + ", " + e.B.String() + ")"
	}
}

func (e *Expr) Eval(env map[Sym]int64) int64 {
	switch e.K {
	case KLin:
		return e.T.Eval(env)
	case KMax:
		a, b := e.A.Eval(env), e.B.Eval(env)
		if a >= b {
			return a
		}
		return b
	case KMin:
		a, b := e.A.Eval(env), e.B.Eval(env)
		if a <= b {
			return a
		}
		return b
	case KAdd:
		return e.A.Eval(env) + e.B.Eval(env)
	default:
		if e.Cond.Eval(env) >= 0 {
			return e.A.Eval(env)
		}
		return e.B.Eval(env)
	}
}

func (e *Expr) Syms(into map[Sym]bool) {
	switch e.K {
	case KLin:
		for s := range e.T.M {
			into[s] = true
		}
	case KIte:
		for s := range e.Cond.M {
			into[s] = true
		}
		fallthrough
	default:
		e.A.Syms(into)
		e.B.Syms(into)
	}
}

// Subst replaces symbols by expressions (used to instantiate summaries).
func (e *Expr) Subst(m map[Sym]*Expr) *Expr {
	switch e.K {
	case KLin:
		r := C(e.T.C)
		for _, s := range e.T.Syms() {
			k := e.T.M[s]
			if v, ok := m[s]; ok {
				r = Add(r, Scale(v, k))
			} else {
				r = Add(r, L(Var(s).Scale(k)))
			}
		}
		return r
	case KMax:
		return Max(e.A.Subst(m), e.B.Subst(m))
	case KMin:
		return Min(e.A.Subst(m), e.B.Subst(m))
	case KAdd:
		return Add(e.A.Subst(m), e.B.Subst(m))
	default:
		// the condition must stay linear: substitute only if every image is linear
		c := C(e.Cond.C)
		for _, s := range e.Cond.Syms() {
			k := e.Cond.M[s]
			if v, ok := m[s]; ok {
				c = Add(c, Scale(v, k))
			} else {
				c = Add(c, L(Var(s).Scale(k)))
			}
		}
		if c.K != KLin {
			panic("lin: non-linear substitution into ite condition")
		}
		return Ite(c.T, e.A.Subst(m), e.B.Subst(m))
	}
}

// ---------------------------------------------------------------------------
// Contexts and Fourier–Motzkin.

// Ctx is a conjunction of constraints t >= 0.
type Ctx struct {
	Cs []Term
}

func (g *Ctx) With(ts ...Term) *Ctx {
	n := &Ctx{Cs: make([]Term, 0, len(g.Cs)+len(ts))}
	n.Cs = append(n.Cs, g.Cs...)
	n.Cs = append(n.Cs, ts...)
	return n
}

func (g *Ctx) Strings() []string {
	r := make([]string, len(g.Cs))
	for i, c := range g.Cs {
		r[i] = c.String() + " >= 0"
	}
	return r
}

func gcd(a, b int64) int64 {
	if a < 0 {
		a = -a
	}
	if b < 0 {
		b = -b
	}
	for b != 0 {
		a, b = b, a%b
	}
	return a
}

func normalize(t Term) Term {
	var g int64
	for _, v := range t.M {
		g = gcd(g, v)
	}
	if g <= 1 {
		return t
	}
	// integer tightening: Σ a_i x_i + c >= 0 with g | a_i  ⇒  Σ (a_i/g) x_i + floor(c/g) >= 0
	r := Term{M: make(map[Sym]int64, len(t.M))}
	for s, v := range t.M {
		r.M[s] = v / g
	}
	c := t.C
	if c >= 0 {
		r.C = c / g
	} else {
		r.C = -((-c + g - 1) / g)
	}
	return r
}

func key(t Term) string {
	var sb strings.Builder
	for _, s := range t.Syms() {
		fmt.Fprintf(&sb, "%s:%d;", s, t.M[s])
	}
	return sb.String()
}

// Infeasible reports whether the conjunction has no rational solution (after
// integer tightening of single constraints, which is sound for integer symbols).
// true ⇒ no integer solution either.
var infCache = map[string]bool{}

func Infeasible(cs []Term) bool {
	ks := make([]string, len(cs))
	for i, c := range cs {
		ks[i] = key(c) + "|" + fmt.Sprint(c.C)
	}
	sort.Strings(ks)
	ck := strings.Join(ks, "&")
	if v, ok := infCache[ck]; ok {
		return v
	}
	r := infeasible(cs)
	if len(infCache) > 2000000 {
		infCache = map[string]bool{}
	}
	infCache[ck] = r
	return r
}

func infeasible(cs []Term) bool {
	// dedupe, keeping the tightest constant per coefficient vector
	cur := map[string]Term{}
	add := func(m map[string]Term, t Term) bool {
		t = normalize(t)
		if t.IsConst() {
			return t.C < 0
		}
		k := key(t)
		if o, ok := m[k]; !ok || t.C < o.C {
			m[k] = t
		}
		return false
	}
	for _, c := range cs {
		if add(cur, c) {
			return true
		}
	}
	for iter := 0; iter < 200; iter++ {
		if len(cur) == 0 {
			return false
		}
		// pick the variable with the smallest pos*neg product
		type pn struct{ p, n int }
		cnt := map[Sym]*pn{}
		for _, t := range cur {
			for s, v := range t.M {
				c := cnt[s]
				if c == nil {
					c = &pn{}
					cnt[s] = c
				}
				if v > 0 {
					c.p++
				} else {
					c.n++
				}
			}
		}
		var best Sym
		bestCost := -1
		syms := make([]Sym, 0, len(cnt))
		for s := range cnt {
			syms = append(syms, s)
		}
		sort.Slice(syms, func(i, j int) bool { return syms[i] < syms[j] })
		for _, s := range syms {
			c := cnt[s]
			cost := c.p*c.n - c.p - c.n
			if bestCost == -1 || cost < bestCost {
				best, bestCost = s, cost
			}
		}
		next := map[string]Term{}
		var pos, neg []Term
		for _, t := range cur {
			v := t.M[best]
			switch {
			case v > 0:
				pos = append(pos, t)
			case v < 0:
				neg = append(neg, t)
			default:
				if add(next, t) {
					return true
				}
			}
		}
		if len(pos)*len(neg) > 20000 {
			return false // give up: treated as feasible (undecided, fails closed upstream)
		}
		for _, p := range pos {
			for _, q := range neg {
				a, b := p.M[best], -q.M[best]
				g := gcd(a, b)
				comb := p.Scale(b / g).Add(q.Scale(a / g))
				if add(next, comb) {
					return true
				}
			}
		}
		cur = next
	}
	return false
}

// Leaf is one linear piece of an expression with the path condition selecting it.
type Leaf struct {
	Conds []Term
	Val   Term
}

// Leaves enumerates the linear pieces of e that are feasible under g.
func Leaves(g *Ctx, e *Expr) []Leaf {
	switch e.K {
	case KLin:
		return []Leaf{{Val: e.T}}
	case KIte:
		var out []Leaf
		gt := g.With(e.Cond)
		if !Infeasible(gt.Cs) {
			for _, l := range Leaves(gt, e.A) {
				out = append(out, Leaf{Conds: append([]Term{e.Cond}, l.Conds...), Val: l.Val})
			}
		}
		nc := e.Cond.Neg().Add(Const(-1))
		gf := g.With(nc)
		if !Infeasible(gf.Cs) {
			for _, l := range Leaves(gf, e.B) {
				out = append(out, Leaf{Conds: append([]Term{nc}, l.Conds...), Val: l.Val})
			}
		}
		return out
	}
	var out []Leaf
	if e.K == KAdd {
		for _, la := range Leaves(g, e.A) {
			ga := g.With(la.Conds...)
			for _, lb := range Leaves(ga, e.B) {
				out = append(out, Leaf{Conds: append(append([]Term{}, la.Conds...), lb.Conds...), Val: la.Val.Add(lb.Val)})
			}
		}
		return out
	}
	for _, la := range Leaves(g, e.A) {
		ga := g.With(la.Conds...)
		for _, lb := range Leaves(ga, e.B) {
			base := append(append([]Term{}, la.Conds...), lb.Conds...)
			d := la.Val.Sub(lb.Val) // a - b
			var c1, c2 Term
			var v1, v2 Term
			if e.K == KMax {
				c1, v1 = d, la.Val                      // a >= b → a
				c2, v2 = d.Neg().Add(Const(-1)), lb.Val // b > a → b
			} else {
				c1, v1 = d.Neg(), la.Val          // a <= b → a
				c2, v2 = d.Add(Const(-1)), lb.Val // a > b → b
			}
			g1 := g.With(append(append([]Term{}, base...), c1)...)
			if !Infeasible(g1.Cs) {
				out = append(out, Leaf{Conds: append(append([]Term{}, base...), c1), Val: v1})
			}
			g2 := g.With(append(append([]Term{}, base...), c2)...)
			if !Infeasible(g2.Cs) {
				out = append(out, Leaf{Conds: append(append([]Term{}, base...), c2), Val: v2})
			}
		}
	}
	return out
}

// ProveGE0: g ⊢ e >= 0 on every feasible piece.
func ProveGE0(g *Ctx, e *Expr) bool {
	for _, l := range Leaves(g, e) {
		gl := g.With(l.Conds...).With(l.Val.Neg().Add(Const(-1)))
		if !Infeasible(gl.Cs) {
			return false
		}
	}
	return true
}

func ProveGE(g *Ctx, a, b *Expr) bool { return ProveGE0(g, Sub(a, b)) }
func ProveEQ(g *Ctx, a, b *Expr) bool {
	d := Sub(a, b)
	for _, l := range Leaves(g, d) {
		gl := g.With(l.Conds...)
		if !Infeasible(gl.With(l.Val.Add(Const(-1))).Cs) || !Infeasible(gl.With(l.Val.Neg().Add(Const(-1))).Cs) {
			return false
		}
	}
	return true
}

// Simplify rewrites e into an equivalent, usually much smaller expression
// under g: its feasible linear pieces are enumerated and, when the function is
// a max, a min or max(0,·)/min(·) of those pieces, it is rebuilt flat.
func Simplify(g *Ctx, e *Expr) *Expr {
	if e.K == KLin {
		return e
	}
	ls := Leaves(g, e)
	if len(ls) == 0 {
		return e
	}
	var vals []Term
	seen := map[string]bool{}
	for _, l := range ls {
		k := l.Val.String()
		if !seen[k] {
			seen[k] = true
			vals = append(vals, l.Val)
		}
	}
	sort.Slice(vals, func(i, j int) bool { return vals[i].String() < vals[j].String() })
	if len(vals) == 1 {
		return L(vals[0])
	}
	if len(vals) > 6 {
		return structural(g, e)
	}
	agrees := func(c *Expr) bool {
		for _, l := range ls {
			gl := g.With(l.Conds...)
			if !ProveEQ(gl, c, L(l.Val)) {
				return false
			}
		}
		return true
	}
	fold := func(k Kind, ts []Term) *Expr {
		r := L(ts[0])
		for _, t := range ts[1:] {
			if k == KMax {
				r = &Expr{K: KMax, A: r, B: L(t)}
			} else {
				r = &Expr{K: KMin, A: r, B: L(t)}
			}
		}
		return r
	}
	if c := fold(KMax, vals); agrees(c) {
		return Prune(g, c)
	}
	if c := fold(KMin, vals); agrees(c) {
		return Prune(g, c)
	}
	if len(vals) <= 5 {
		for i := range vals {
			rest := append(append([]Term{}, vals[:i]...), vals[i+1:]...)
			c := &Expr{K: KMax, A: L(vals[i]), B: fold(KMin, rest)}
			if agrees(c) {
				return Prune(g, c)
			}
			c = &Expr{K: KMin, A: L(vals[i]), B: fold(KMax, rest)}
			if agrees(c) {
				return Prune(g, c)
			}
		}
	}
	return structural(g, e)
}

// Prune removes dominated operands of max/min bottom-up.
func Prune(g *Ctx, e *Expr) *Expr {
	switch e.K {
	case KMax, KMin:
		var ops []*Expr
		var collect func(x *Expr)
		collect = func(x *Expr) {
			if x.K == e.K {
				collect(x.A)
				collect(x.B)
				return
			}
			ops = append(ops, Prune(g, x))
		}
		collect(e)
		var keep []*Expr
		for i, o := range ops {
			dom := false
			for j, p := range ops {
				if i == j {
					continue
				}
				var pDominates, oDominates bool
				if e.K == KMax {
					pDominates, oDominates = ProveGE(g, p, o), ProveGE(g, o, p)
				} else {
					pDominates, oDominates = ProveGE(g, o, p), ProveGE(g, p, o)
				}
				if pDominates && !(oDominates && j > i) {
					dom = true
					break
				}
			}
			if !dom {
				keep = append(keep, o)
			}
		}
		if len(keep) == 0 {
			keep = ops[:1]
		}
		sort.SliceStable(keep, func(i, j int) bool { return keep[i].String() < keep[j].String() })
		r := keep[0]
		for _, o := range keep[1:] {
			r = &Expr{K: e.K, A: r, B: o}
		}
		return r
	}
	return e
}

// structural simplifies children and drops decided choices.
func structural(g *Ctx, e *Expr) *Expr {
	switch e.K {
	case KLin:
		return e
	case KAdd:
		return Add(structural(g, e.A), structural(g, e.B))
	case KIte:
		if Infeasible(g.With(e.Cond.Neg().Add(Const(-1))).Cs) {
			return structural(g, e.A)
		}
		if Infeasible(g.With(e.Cond).Cs) {
			return structural(g, e.B)
		}
		return Ite(e.Cond, structural(g.With(e.Cond), e.A), structural(g.With(e.Cond.Neg().Add(Const(-1))), e.B))
	}
	a := structural(g, e.A)
	b := structural(g, e.B)
	if a.K == KLin && b.K == KLin {
		d := a.T.Sub(b.T)
		if Infeasible(g.With(d.Neg().Add(Const(-1))).Cs) { // a >= b always
			if e.K == KMax {
				return a
			}
			return b
		}
		if Infeasible(g.With(d.Add(Const(-1))).Cs) { // b >= a always
			if e.K == KMax {
				return b
			}
			return a
		}
	}
	if e.K == KMax {
		return Max(a, b)
	}
	return Min(a, b)
}

// ---------------------------------------------------------------------------
// Witness search.

// FindWitness looks for an integer assignment satisfying g under which pred
// returns true. Symbols range over a small box, smallest values first.
func FindWitness(g *Ctx, syms []Sym, lo, hi map[Sym]int64, defLo, defHi int64, pred func(env map[Sym]int64) bool) map[Sym]int64 {
	sort.Slice(syms, func(i, j int) bool { return syms[i] < syms[j] })
	if len(syms) > 7 {
		defHi = defLo + 2
	} else if len(syms) > 5 {
		if defHi > defLo+3 {
			defHi = defLo + 3
		}
	}
	env := map[Sym]int64{}
	budget := 3000000
	var rec func(i int) map[Sym]int64
	rec = func(i int) map[Sym]int64 {
		if budget <= 0 {
			return nil
		}
		if i == len(syms) {
			budget--
			for _, c := range g.Cs {
				if c.Eval(env) < 0 {
					return nil
				}
			}
			if pred(env) {
				r := map[Sym]int64{}
				for k, v := range env {
					r[k] = v
				}
				return r
			}
			return nil
		}
		s := syms[i]
		l, h := defLo, defHi
		if v, ok := lo[s]; ok {
			l = v
		}
		if v, ok := hi[s]; ok {
			h = v
		}
		for v := l; v <= h; v++ {
			env[s] = v
			if r := rec(i + 1); r != nil {
				return r
			}
		}
		delete(env, s)
		return nil
	}
	return rec(0)
}

// Canon rewrites a linear-piece expression modulo the equalities entailed by g
// (so that Jaw - Teeth - 1 and -1 print the same when g forces Jaw = Teeth).
func Canon(g *Ctx, e *Expr) *Expr {
	e = Simplify(g, e)
	if e.K != KLin {
		return e
	}
	t := e.T
	// equalities: constraints c >= 0 for which c >= 1 is infeasible
	var eqs []Term
	for _, c := range g.Cs {
		if c.IsConst() {
			continue
		}
		if Infeasible(g.With(c.Add(Const(-1))).Cs) {
			eqs = append(eqs, c)
		}
	}
	for iter := 0; iter < 8; iter++ {
		changed := false
		for _, q := range eqs {
			// pick the lexicographically largest symbol with coefficient ±1 that occurs in t
			var pick Sym
			for _, s := range q.Syms() {
				if k := q.M[s]; (k == 1 || k == -1) && t.M[s] != 0 {
					pick = s
				}
			}
			if pick == "" {
				continue
			}
			// q: k*pick + rest = 0  =>  pick = -rest/k
			k := q.M[pick]
			rest := q.clone()
			delete(rest.M, pick)
			sub := rest.Scale(-k) // k = ±1 so 1/k = k
			coef := t.M[pick]
			nt := t.clone()
			delete(nt.M, pick)
			nt = nt.Add(sub.Scale(coef))
			if len(nt.M) < len(t.M) || (len(nt.M) == len(t.M) && nt.String() < t.String()) {
				t = nt
				changed = true
			}
		}
		if !changed {
			break
		}
	}
	return L(t)
}
