// Package report turns rule outcomes into the interface the harness expects:
// VIOLATION / KNOWN-FINDING lines, replay files, evidence JSON, exit codes.
package report

import (
	"encoding/json"
	"fmt"
	"os"
	"path/filepath"
	"sort"
	"strconv"
	"strings"
	"time"
)

type Finding struct {
	Property   string           `json:"property"`
	Rule       string           `json:"rule"`
	Site       string           `json:"site"`
	Detail     string           `json:"detail"`
	Pos        string           `json:"pos"`
	Message    string           `json:"message"`
	Witness    map[string]int64 `json:"witness,omitempty"`
	Derivation []string         `json:"derivation,omitempty"`
}

func (f Finding) Key() string { return f.Property + "|" + f.Rule + "|" + f.Site + "|" + f.Detail }

// Known is one entry of /verif/known_findings.json.
type Known struct {
	Property string `json:"property"`
	Rule     string `json:"rule"`
	Site     string `json:"site"`
	Detail   string `json:"detail"`
	Status   string `json:"status"` // "known" or "fixed"
	Commit   string `json:"commit,omitempty"`
	What     string `json:"what"`
}

func (k Known) Key() string { return k.Property + "|" + k.Rule + "|" + k.Site + "|" + k.Detail }

type Run struct {
	Property    string
	Tier        string
	Seed        int64
	Start       time.Time
	Technique   string
	Explanation string
	Obligations int
	Discharged  int
	Findings    []Finding
	Counts      map[string]int
	Floors      map[string]int
	Samples     []any
	Assumptions []string
	Trusted     []string
	Broken      []string
	Notes       []string
	Exhaustive  bool
	seen        map[string]bool
}

func NewRun(property, tier string) *Run {
	seed := int64(0)
	if s := os.Getenv("VERIF_SEED"); s != "" {
		if v, err := strconv.ParseInt(s, 10, 64); err == nil {
			seed = v
		}
	}
	return &Run{Property: property, Tier: tier, Seed: seed, Start: time.Now(), Counts: map[string]int{}, Floors: map[string]int{}, seen: map[string]bool{}}
}

// Oblige records one obligation and whether it was discharged.
func (r *Run) Oblige(ok bool) {
	r.Obligations++
	if ok {
		r.Discharged++
	}
}

// Violate records a failed obligation (deduplicated by key).
func (r *Run) Violate(f Finding) {
	f.Property = r.Property
	if r.seen[f.Key()] {
		return
	}
	r.seen[f.Key()] = true
	r.Findings = append(r.Findings, f)
}

func (r *Run) Count(name string, n int) { r.Counts[name] += n }
func (r *Run) Floor(name string, n int) { r.Floors[name] = n }
func (r *Run) Sample(v any) {
	if len(r.Samples) < 12 {
		r.Samples = append(r.Samples, v)
	}
}
func (r *Run) Assume(s string) {
	for _, a := range r.Assumptions {
		if a == s {
			return
		}
	}
	r.Assumptions = append(r.Assumptions, s)
}
func (r *Run) Break(why string) { r.Broken = append(r.Broken, why) }
func (r *Run) Note(s string) {
	for _, a := range r.Notes {
		if a == s {
			return
		}
	}
	r.Notes = append(r.Notes, s)
}

func LoadKnown(verifDir string) ([]Known, error) {
	b, err := os.ReadFile(filepath.Join(verifDir, "known_findings.json"))
	if err != nil {
		if os.IsNotExist(err) {
			return nil, nil
		}
		return nil, err
	}
	var ks []Known
	if err := json.Unmarshal(b, &ks); err != nil {
		return nil, err
	}
	return ks, nil
}

// Fresh returns the findings not listed as known (and whether the run is broken), without
// printing or writing anything: used by the self-test on scratch copies.
func (r *Run) Fresh(verifDir string) ([]Finding, []string) {
	for name, floor := range r.Floors {
		if r.Counts[name] < floor {
			r.Break(fmt.Sprintf("rule instance count %q = %d is below the confirmed floor %d", name, r.Counts[name], floor))
		}
	}
	known, _ := LoadKnown(verifDir)
	kmap := map[string]bool{}
	for _, k := range known {
		if k.Property == r.Property && k.Status == "known" {
			kmap[k.Key()] = true
		}
	}
	var fresh []Finding
	for _, f := range r.Findings {
		if !kmap[f.Key()] {
			fresh = append(fresh, f)
		}
	}
	return fresh, r.Broken
}

// Finish prints the verdict, writes evidence and replay files and returns the exit code.
func (r *Run) Finish(verifDir string) int {
	for name, floor := range r.Floors {
		if r.Counts[name] < floor {
			r.Break(fmt.Sprintf("rule instance count %q = %d is below the confirmed floor %d (the rule would pass vacuously)", name, r.Counts[name], floor))
		}
	}
	known, err := LoadKnown(verifDir)
	if err != nil {
		r.Break("known_findings.json unreadable: " + err.Error())
	}
	kmap := map[string]Known{}
	for _, k := range known {
		if k.Property == r.Property && k.Status == "known" {
			kmap[k.Key()] = k
		}
	}
	sort.SliceStable(r.Findings, func(i, j int) bool { return r.Findings[i].Key() < r.Findings[j].Key() })
	var fresh, listed []Finding
	for _, f := range r.Findings {
		if _, ok := kmap[f.Key()]; ok {
			listed = append(listed, f)
		} else {
			fresh = append(fresh, f)
		}
	}
	evDir := filepath.Join(verifDir, "evidence")
	_ = os.MkdirAll(filepath.Join(evDir, "replay"), 0o755)
	// stale replay files of earlier runs must not be mistaken for current findings
	if old, _ := filepath.Glob(filepath.Join(evDir, "replay", r.Property+"-*.json")); len(old) > 0 {
		for _, o := range old {
			_ = os.Remove(o)
		}
	}
	for _, f := range listed {
		if os.Getenv("VERIF_KEYS") != "" {
			fmt.Printf("KEY %s\n", f.Key())
		}
		fmt.Printf("KNOWN-FINDING: property=%s %s %s: %s [%s]\n", r.Property, f.Rule, f.Site, f.Message, f.Pos)
	}
	for i, f := range fresh {
		path := filepath.Join(evDir, "replay", fmt.Sprintf("%s-%d.json", r.Property, i+1))
		b, _ := json.MarshalIndent(f, "", " ")
		_ = os.WriteFile(path, b, 0o644)
		fmt.Printf("  %s %s: %s [%s]\n", f.Rule, f.Site, f.Message, f.Pos)
		if len(f.Witness) > 0 {
			fmt.Printf("    witness: %s\n", witnessString(f.Witness))
		}
		fmt.Printf("VIOLATION property=%s replay=%s\n", r.Property, path)
	}
	for _, b := range r.Broken {
		fmt.Printf("CHECK-BROKEN property=%s: %s\n", r.Property, b)
	}
	wall := time.Since(r.Start).Seconds()
	cov := map[string]any{
		"explanation":         r.Explanation,
		"obligations":         r.Obligations,
		"discharged":          r.Discharged,
		"evaluations":         r.Obligations,
		"distinct_nontrivial": r.Obligations,
		"rule":                "one obligation per (rule, function, construct) instance enumerated from the type-checked source of /repo on this run; all are distinct by key and none is trivial (each is an entailment over symbolic configurations or a structural fact about a resolved construct)",
		"samples":             r.Samples,
		"counts":              r.Counts,
		"floors":              r.Floors,
		"known_findings":      len(listed),
		"checker_cmd":         "/verif/bin/verifcheck check " + r.Property + " --tier " + r.Tier,
		"trusted_base":        r.Trusted,
		"exhaustive":          r.Exhaustive,
		"notes":               r.Notes,
		"technique":           r.Technique,
	}
	if len(r.Samples) == 0 {
		cov["samples"] = []any{"(no obligations)"}
	}
	ev := map[string]any{
		"property_id": r.Property,
		"tier":        r.Tier,
		"seed":        r.Seed,
		"level":       "other",
		"coverage":    cov,
		"assumptions": r.Assumptions,
		"wall_s":      wall,
		"violations":  len(fresh),
	}
	if r.Assumptions == nil {
		ev["assumptions"] = []string{}
	}
	b, _ := json.MarshalIndent(ev, "", " ")
	if err := os.WriteFile(filepath.Join(evDir, r.Property+".json"), b, 0o644); err != nil {
		fmt.Printf("CHECK-BROKEN property=%s: cannot write evidence: %v\n", r.Property, err)
		return 2
	}
	fmt.Printf("%s tier=%s obligations=%d discharged=%d known=%d violations=%d wall=%.1fs\n", r.Property, r.Tier, r.Obligations, r.Discharged, len(listed), len(fresh), wall)
	if len(r.Broken) > 0 {
		return 2
	}
	if len(fresh) > 0 {
		return 1
	}
	return 0
}

func witnessString(w map[string]int64) string {
	ks := make([]string, 0, len(w))
	for k := range w {
		ks = append(ks, k)
	}
	sort.Strings(ks)
	var parts []string
	for _, k := range ks {
		parts = append(parts, fmt.Sprintf("%s=%d", k, w[k]))
	}
	return strings.Join(parts, " ")
}
