// Package posit searches non-negativity certificates: a target polynomial written as a
// combination, with non-negative rational multipliers, of polynomials known to be non-negative.
// Monomials are independent coordinates, so the search is exact linear programming (phase-1
// simplex over big rationals, Bland's rule).
package posit

import (
	"math/big"
	"sort"
)

// Vec is a sparse vector over monomial keys ("" is the constant coordinate).
type Vec map[string]*big.Rat

// Certificate: target = sum Mult[i]*gens[i] + Slack, all multipliers >= 0.
type Certificate struct {
	Mult  map[int]*big.Rat
	Slack *big.Rat
}

// Combine finds multipliers m_i >= 0 and a slack s >= 0 with target = sum m_i*gens[i] + s
// (coordinate-wise, the slack on the constant coordinate). nil if none exists.
func Combine(target Vec, gens []Vec) *Certificate {
	// coordinates
	coordSet := map[string]bool{"": true}
	for k := range target {
		coordSet[k] = true
	}
	for _, g := range gens {
		for k := range g {
			coordSet[k] = true
		}
	}
	var coords []string
	for k := range coordSet {
		coords = append(coords, k)
	}
	sort.Strings(coords)
	// a generator using a coordinate absent from every other generator and from the target can
	// only have multiplier zero when that coordinate cannot be cancelled: drop such generators early
	gensIdx := make([]int, 0, len(gens))
	for {
		changed := false
		count := map[string]int{}
		live := gensIdx[:0:0]
		if len(gensIdx) == 0 {
			for i := range gens {
				live = append(live, i)
			}
		} else {
			live = gensIdx
		}
		pos := map[string]bool{}
		neg := map[string]bool{}
		for _, i := range live {
			for k, v := range gens[i] {
				count[k]++
				if v.Sign() > 0 {
					pos[k] = true
				} else if v.Sign() < 0 {
					neg[k] = true
				}
			}
		}
		var keep []int
		for _, i := range live {
			ok := true
			for k, v := range gens[i] {
				if k == "" {
					continue
				}
				t := target[k]
				tz := t == nil || t.Sign() == 0
				// coordinate k must sum to target: with only same-signed contributions and a zero
				// (or opposite) target the multiplier is forced to zero
				if v.Sign() > 0 && !neg[k] && (tz || t.Sign() < 0) {
					ok = false
				}
				if v.Sign() < 0 && !pos[k] && (tz || t.Sign() > 0) {
					ok = false
				}
			}
			if ok {
				keep = append(keep, i)
			} else {
				changed = true
			}
		}
		gensIdx = keep
		if !changed {
			break
		}
		if len(gensIdx) == 0 {
			break
		}
	}
	m := len(coords)
	n := len(gensIdx) + 1 // + slack
	// tableau rows: coords; columns: n structural + m artificial + rhs
	cols := n + m + 1
	T := make([][]*big.Rat, m+1)
	zero := func() *big.Rat { return new(big.Rat) }
	for i := range T {
		T[i] = make([]*big.Rat, cols)
		for j := range T[i] {
			T[i][j] = zero()
		}
	}
	for r, k := range coords {
		for c, gi := range gensIdx {
			if v, ok := gens[gi][k]; ok {
				T[r][c].Set(v)
			}
		}
		if k == "" {
			T[r][n-1].SetInt64(1)
		}
		if v, ok := target[k]; ok {
			T[r][cols-1].Set(v)
		}
		if T[r][cols-1].Sign() < 0 {
			for c := 0; c < cols; c++ {
				T[r][c].Neg(T[r][c])
			}
		}
		T[r][n+r].SetInt64(1)
	}
	basis := make([]int, m)
	for r := range basis {
		basis[r] = n + r
	}
	// objective row: minimise sum of artificials -> row m holds reduced costs
	obj := T[m]
	for r := 0; r < m; r++ {
		for c := 0; c < cols; c++ {
			if c >= n && c < n+m {
				continue
			}
			obj[c].Sub(obj[c], T[r][c])
		}
	}
	for iter := 0; iter < 20000; iter++ {
		// entering: smallest index with negative reduced cost (Bland)
		enter := -1
		for c := 0; c < n+m; c++ {
			if obj[c].Sign() < 0 {
				enter = c
				break
			}
		}
		if enter < 0 {
			break
		}
		leave := -1
		var best *big.Rat
		for r := 0; r < m; r++ {
			if T[r][enter].Sign() > 0 {
				q := new(big.Rat).Quo(T[r][cols-1], T[r][enter])
				if leave < 0 || q.Cmp(best) < 0 || (q.Cmp(best) == 0 && basis[r] < basis[leave]) {
					leave, best = r, q
				}
			}
		}
		if leave < 0 {
			return nil // unbounded: cannot happen in phase 1
		}
		piv := new(big.Rat).Set(T[leave][enter])
		for c := 0; c < cols; c++ {
			T[leave][c].Quo(T[leave][c], piv)
		}
		for r := 0; r <= m; r++ {
			if r == leave || T[r][enter].Sign() == 0 {
				continue
			}
			f := new(big.Rat).Set(T[r][enter])
			for c := 0; c < cols; c++ {
				if T[leave][c].Sign() != 0 {
					T[r][c].Sub(T[r][c], new(big.Rat).Mul(f, T[leave][c]))
				}
			}
		}
		basis[leave] = enter
	}
	// optimum: -obj[rhs] is the sum of artificials
	if obj[cols-1].Sign() != 0 {
		return nil
	}
	cert := &Certificate{Mult: map[int]*big.Rat{}, Slack: new(big.Rat)}
	for r, b := range basis {
		if b >= n {
			if T[r][cols-1].Sign() != 0 {
				return nil
			}
			continue
		}
		if T[r][cols-1].Sign() == 0 {
			continue
		}
		if b == n-1 {
			cert.Slack.Set(T[r][cols-1])
		} else {
			cert.Mult[gensIdx[b]] = new(big.Rat).Set(T[r][cols-1])
		}
	}
	return cert
}
