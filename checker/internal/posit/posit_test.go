package posit

import (
	"math/big"
	"testing"
)

func v(kv ...interface{}) Vec {
	r := Vec{}
	for i := 0; i < len(kv); i += 2 {
		r[kv[i].(string)] = big.NewRat(int64(kv[i+1].(int)), 1)
	}
	return r
}

func TestCombine(t *testing.T) {
	// c - min >= 0 from c - l >= 0 and l - min >= 0
	if Combine(v("c", 1, "m", -1), []Vec{v("c", 1, "l", -1), v("l", 1, "m", -1)}) == nil {
		t.Fatal("expected a certificate")
	}
	// not derivable: m - c >= 0
	if Combine(v("c", -1, "m", 1), []Vec{v("c", 1, "l", -1), v("l", 1, "m", -1)}) != nil {
		t.Fatal("unexpected certificate")
	}
	// slack: x + 3 >= 0 from x >= 0
	if Combine(v("x", 1, "", 3), []Vec{v("x", 1)}) == nil {
		t.Fatal("expected slack certificate")
	}
	// x - 3 >= 0 not from x >= 0
	if Combine(v("x", 1, "", -3), []Vec{v("x", 1)}) != nil {
		t.Fatal("unexpected")
	}
	// 100 - x >= 0 from 1 - y >= 0, x = 100 y encoded: x - 100y >= 0 and 100y - x >= 0
	if Combine(v("", 100, "x", -1), []Vec{v("", 1, "y", -1), v("x", 1, "y", -100), v("x", -1, "y", 100)}) == nil {
		t.Fatal("expected")
	}
}
