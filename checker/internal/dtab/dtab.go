// Package dtab is Engine D: it turns a loop-free function literal (or statement list)
// into guarded commands by symbolic execution over the typed AST — every path with
// the conjunction of its branch conditions, the new values of captured state
// variables, the returned (or sent) value — as sym expressions that can be
// evaluated on finite abstract domains or compared as normal forms.
package dtab

import (
	"fmt"
	"go/ast"
	"go/constant"
	"go/token"
	"go/types"
	"sort"
	"strings"

	"verif/checker/internal/sym"
)

type Path struct {
	Conds   []sym.Expr
	Updates map[string]sym.Expr // captured variable -> new value (over pre-state and parameters)
	Ret     []sym.Expr          // returned values
	Sends   []sym.Expr          // values sent on channels along the path
	Effects []string            // opaque calls executed (method calls with side effects)
	Exit    string              // "return", "fall", "break", "continue"
}

type Machine struct {
	Params      []string
	State       []string // captured variables that some path assigns
	Reads       []string // captured variables / configuration selectors read
	Paths       []*Path
	Unsupported []string
	Pos         token.Pos
	ReadExprs   map[string]ast.Expr // first occurrence of every captured variable / selector read
}

type state struct {
	fields  map[string]sym.Expr // fields assigned through a variable (r.begin): name -> value
	env     map[types.Object]sym.Expr
	conds   []sym.Expr
	sends   []sym.Expr
	effects []string
}

func (s *state) clone() *state {
	n := &state{env: map[types.Object]sym.Expr{}}
	for k, v := range s.env {
		n.env[k] = v
	}
	if s.fields != nil {
		n.fields = map[string]sym.Expr{}
		for k, v := range s.fields {
			n.fields[k] = v
		}
	}
	n.conds = append([]sym.Expr{}, s.conds...)
	n.sends = append([]sym.Expr{}, s.sends...)
	n.effects = append([]string{}, s.effects...)
	return n
}

type builder struct {
	info   *types.Info
	m      *Machine
	lo, hi token.Pos // extent of the analysed code: variables declared outside are captured
	params map[types.Object]bool
	state  map[string]bool
	reads  map[string]bool
	names  map[types.Object]string

	sumDepth    int
	inlineDepth int
	recvByType  map[string]map[string]bool
}

// FromFuncLit extracts the guarded commands of a function literal.
func FromFuncLit(info *types.Info, lit *ast.FuncLit) *Machine {
	b := newBuilder(info, lit.Pos(), lit.End())
	st := &state{env: map[types.Object]sym.Expr{}}
	if lit.Type.Params != nil {
		for _, f := range lit.Type.Params.List {
			for _, nm := range f.Names {
				if obj := info.Defs[nm]; obj != nil {
					b.params[obj] = true
					b.m.Params = append(b.m.Params, nm.Name)
				}
			}
		}
	}
	b.run(lit.Body.List, st)
	return b.finish()
}

// FromFuncDecl extracts the guarded commands of a declared function or method; the receiver's
// fields that are assigned become remembered values ("r.begin").
func FromFuncDecl(info *types.Info, fd *ast.FuncDecl) *Machine {
	if fd.Body == nil {
		return &Machine{}
	}
	b := newBuilder(info, fd.Body.Pos(), fd.Body.End())
	if fd.Type.Params != nil {
		for _, f := range fd.Type.Params.List {
			for _, nm := range f.Names {
				if obj := info.Defs[nm]; obj != nil {
					b.params[obj] = true
					b.m.Params = append(b.m.Params, nm.Name)
				}
			}
		}
	}
	b.run(fd.Body.List, &state{env: map[types.Object]sym.Expr{}})
	return b.finish()
}

// FromStmts extracts the guarded commands of a statement list (a loop body); variables
// declared before lo are treated as captured, those listed in inputs as parameters.
func FromStmts(info *types.Info, stmts []ast.Stmt, inputs []types.Object) *Machine {
	if len(stmts) == 0 {
		return &Machine{}
	}
	b := newBuilder(info, stmts[0].Pos(), stmts[len(stmts)-1].End())
	for _, o := range inputs {
		b.params[o] = true
		b.m.Params = append(b.m.Params, o.Name())
	}
	b.run(stmts, &state{env: map[types.Object]sym.Expr{}})
	return b.finish()
}

func newBuilder(info *types.Info, lo, hi token.Pos) *builder {
	return &builder{info: info, m: &Machine{Pos: lo, ReadExprs: map[string]ast.Expr{}}, lo: lo, hi: hi, params: map[types.Object]bool{}, state: map[string]bool{}, reads: map[string]bool{}, names: map[types.Object]string{}}
}

func (b *builder) finish() *Machine {
	for s := range b.state {
		b.m.State = append(b.m.State, s)
	}
	sort.Strings(b.m.State)
	for s := range b.reads {
		b.m.Reads = append(b.m.Reads, s)
	}
	sort.Strings(b.m.Reads)
	return b.m
}

func (b *builder) unsupported(pos token.Pos, what string) {
	b.m.Unsupported = append(b.m.Unsupported, what)
}

func (b *builder) run(stmts []ast.Stmt, st *state) {
	for _, s := range b.exec(stmts, st) {
		b.end(s, "fall", nil)
	}
}

func (b *builder) end(st *state, exit string, ret []sym.Expr) {
	p := &Path{Conds: st.conds, Updates: map[string]sym.Expr{}, Ret: ret, Sends: st.sends, Effects: st.effects, Exit: exit}
	for obj, v := range st.env {
		if b.captured(obj) {
			p.Updates[obj.Name()] = v
			b.state[obj.Name()] = true
		}
	}
	for name, v := range st.fields {
		p.Updates[name] = v
		b.state[name] = true
	}
	b.m.Paths = append(b.m.Paths, p)
}

func (b *builder) captured(obj types.Object) bool {
	if b.params[obj] {
		return false
	}
	v, ok := obj.(*types.Var)
	if !ok || v.IsField() {
		return false
	}
	return obj.Pos() < b.lo || obj.Pos() > b.hi
}

// exec runs the statements and returns the states that fall through.
func (b *builder) exec(stmts []ast.Stmt, st *state) []*state {
	cur := []*state{st}
	for _, s := range stmts {
		var next []*state
		for _, c := range cur {
			next = append(next, b.stmt(s, c)...)
		}
		cur = next
		if len(cur) > 256 {
			b.unsupported(s.Pos(), "too many paths")
			return nil
		}
	}
	return cur
}

func (b *builder) stmt(s ast.Stmt, st *state) []*state {
	switch x := s.(type) {
	case *ast.BlockStmt:
		return b.exec(x.List, st)
	case *ast.ExprStmt:
		if call, ok := x.X.(*ast.CallExpr); ok {
			st.effects = append(st.effects, types.ExprString(call))
			return []*state{st}
		}
		return []*state{st}
	case *ast.DeclStmt:
		if gd, ok := x.Decl.(*ast.GenDecl); ok {
			for _, sp := range gd.Specs {
				if vs, ok := sp.(*ast.ValueSpec); ok {
					for i, nm := range vs.Names {
						obj := b.info.Defs[nm]
						if obj == nil {
							continue
						}
						if i < len(vs.Values) {
							st.env[obj] = b.expr(vs.Values[i], st)
						} else {
							st.env[obj] = sym.N(0)
						}
					}
				}
			}
		}
		return []*state{st}
	case *ast.AssignStmt:
		b.assign(x, st)
		return []*state{st}
	case *ast.IncDecStmt:
		cur := b.expr(x.X, st)
		d := sym.N(1)
		if x.Tok == token.DEC {
			b.set(x.X, sym.Sub(cur, d), st)
		} else {
			b.set(x.X, sym.Add(cur, d), st)
		}
		return []*state{st}
	case *ast.SendStmt:
		st.sends = append(st.sends, b.expr(x.Value, st))
		return []*state{st}
	case *ast.ReturnStmt:
		var rs []sym.Expr
		for _, r := range x.Results {
			rs = append(rs, b.expr(r, st))
		}
		b.end(st, "return", rs)
		return nil
	case *ast.BranchStmt:
		switch x.Tok {
		case token.BREAK:
			b.end(st, "break", nil)
		case token.CONTINUE:
			b.end(st, "continue", nil)
		default:
			b.unsupported(x.Pos(), "goto/fallthrough")
		}
		return nil
	case *ast.IfStmt:
		if x.Init != nil {
			sts := b.stmt(x.Init, st)
			if len(sts) != 1 {
				return sts
			}
			st = sts[0]
		}
		c := b.expr(x.Cond, st)
		t := st.clone()
		t.conds = append(t.conds, c)
		out := b.exec(x.Body.List, t)
		e := st.clone()
		e.conds = append(e.conds, sym.Logic{Op: "!", Args: []sym.Expr{c}})
		if x.Else != nil {
			out = append(out, b.stmt(x.Else, e)...)
		} else {
			out = append(out, e)
		}
		return out
	case *ast.SwitchStmt:
		if x.Init != nil || x.Tag == nil {
			b.unsupported(x.Pos(), "switch without tag")
			return []*state{st}
		}
		tag := b.expr(x.Tag, st)
		var out []*state
		var negs []sym.Expr
		var def *ast.CaseClause
		for _, cs := range x.Body.List {
			cc := cs.(*ast.CaseClause)
			if cc.List == nil {
				def = cc
				continue
			}
			var alts []sym.Expr
			for _, v := range cc.List {
				alts = append(alts, sym.Cmp{Op: "==", L: tag, R: b.expr(v, st)})
			}
			var c sym.Expr = alts[0]
			if len(alts) > 1 {
				c = sym.Logic{Op: "||", Args: alts}
			}
			t := st.clone()
			t.conds = append(append(t.conds, negs...), c)
			out = append(out, b.exec(cc.Body, t)...)
			negs = append(negs, sym.Logic{Op: "!", Args: []sym.Expr{c}})
		}
		d := st.clone()
		d.conds = append(d.conds, negs...)
		if def != nil {
			out = append(out, b.exec(def.Body, d)...)
		} else {
			out = append(out, d)
		}
		return out
	case *ast.ForStmt, *ast.RangeStmt:
		if fs, ok := s.(*ast.ForStmt); ok && b.summation(fs, st) {
			return []*state{st}
		}
		if fs, ok := s.(*ast.ForStmt); ok {
			if out, ok := b.search(fs, st); ok {
				return out
			}
		}
		b.unsupported(s.Pos(), "loop")
		// the loop's effects are unknown: variables assigned inside become opaque
		ast.Inspect(s, func(n ast.Node) bool {
			if as, ok := n.(*ast.AssignStmt); ok {
				for _, l := range as.Lhs {
					if id, ok := l.(*ast.Ident); ok {
						if obj := b.info.Uses[id]; obj != nil {
							st.env[obj] = sym.F("loop", sym.V(id.Name))
						}
					}
				}
			}
			return true
		})
		return []*state{st}
	case *ast.EmptyStmt:
		return []*state{st}
	}
	b.unsupported(s.Pos(), fmt.Sprintf("%T", s))
	return []*state{st}
}

// summation recognises `for i := A; i < B; i++ { acc += e(i) }` (also `acc = acc + e(i)`) and
// records acc' = acc + sum(A, B, e($k)); the loop variable becomes the bound name $k. Method
// calls in e are kept as operator applications (their reads are not effects of the step).
func (b *builder) summation(fs *ast.ForStmt, st *state) bool {
	init, ok := fs.Init.(*ast.AssignStmt)
	if !ok || init.Tok != token.DEFINE || len(init.Lhs) != 1 || len(init.Rhs) != 1 {
		return false
	}
	iv, ok := init.Lhs[0].(*ast.Ident)
	if !ok {
		return false
	}
	iobj := b.info.Defs[iv]
	cond, ok := fs.Cond.(*ast.BinaryExpr)
	if !ok || cond.Op != token.LSS {
		return false
	}
	if ci, ok := cond.X.(*ast.Ident); !ok || b.info.Uses[ci] != iobj {
		return false
	}
	post, ok := fs.Post.(*ast.IncDecStmt)
	if !ok || post.Tok != token.INC {
		return false
	}
	if pi, ok := post.X.(*ast.Ident); !ok || b.info.Uses[pi] != iobj {
		return false
	}
	if len(fs.Body.List) == 0 {
		return false
	}
	// locals of the iteration (x := e, defined once each) may precede the accumulating assignment
	var locals []*ast.AssignStmt
	for _, s := range fs.Body.List[:len(fs.Body.List)-1] {
		d, ok := s.(*ast.AssignStmt)
		if !ok || d.Tok != token.DEFINE || len(d.Lhs) != 1 || len(d.Rhs) != 1 {
			return false
		}
		if _, isID := d.Lhs[0].(*ast.Ident); !isID {
			return false
		}
		locals = append(locals, d)
	}
	as, ok := fs.Body.List[len(fs.Body.List)-1].(*ast.AssignStmt)
	if !ok || len(as.Lhs) != 1 || len(as.Rhs) != 1 {
		return false
	}
	acc, ok := as.Lhs[0].(*ast.Ident)
	if !ok {
		return false
	}
	accObj := b.info.Uses[acc]
	if accObj == nil {
		return false
	}
	var term ast.Expr
	switch as.Tok {
	case token.ADD_ASSIGN:
		term = as.Rhs[0]
	case token.ASSIGN:
		be, ok := as.Rhs[0].(*ast.BinaryExpr)
		if !ok || be.Op != token.ADD {
			return false
		}
		if l, ok := be.X.(*ast.Ident); ok && b.info.Uses[l] == accObj {
			term = be.Y
		} else if r, ok := be.Y.(*ast.Ident); ok && b.info.Uses[r] == accObj {
			term = be.X
		} else {
			return false
		}
	default:
		return false
	}
	// the summand must not mention the accumulator
	usesAcc := false
	mentionsAcc := func(e ast.Node) {
		ast.Inspect(e, func(n ast.Node) bool {
			if id, ok := n.(*ast.Ident); ok && b.info.Uses[id] == accObj {
				usesAcc = true
			}
			return true
		})
	}
	mentionsAcc(term)
	for _, d := range locals {
		mentionsAcc(d.Rhs[0])
	}
	if usesAcc {
		return false
	}
	b.sumDepth++
	bound := sym.V(fmt.Sprintf("$k%d", b.sumDepth))
	lo := b.expr(init.Rhs[0], st)
	hi := b.expr(cond.Y, st)
	inner := st.clone()
	inner.env[iobj] = bound
	nEff := len(inner.effects)
	for _, d := range locals {
		if obj := b.info.Defs[d.Lhs[0].(*ast.Ident)]; obj != nil {
			inner.env[obj] = b.expr(d.Rhs[0], inner)
		}
	}
	body := b.expr(term, inner)
	_ = nEff // reads inside the summand are not effects of the step
	b.sumDepth--
	cur := b.lookup(accObj, acc.Name, st)
	st.env[accObj] = sym.Add(cur, sym.F("sum", lo, hi, body))
	return true
}

// search reads `for i := lo; i < hi; i++ { if P(i) { return X } }` (X independent of i, P free of
// effects and of assignments) as a bounded existential: one path on which exists(lo, hi, P($k))
// holds and X is returned, and one on which it does not and execution goes on after the loop.
func (b *builder) search(fs *ast.ForStmt, st *state) ([]*state, bool) {
	init, ok := fs.Init.(*ast.AssignStmt)
	if !ok || init.Tok != token.DEFINE || len(init.Lhs) != 1 || len(init.Rhs) != 1 {
		return nil, false
	}
	iv, ok := init.Lhs[0].(*ast.Ident)
	if !ok {
		return nil, false
	}
	iobj := b.info.Defs[iv]
	cond, ok := fs.Cond.(*ast.BinaryExpr)
	if !ok || cond.Op != token.LSS {
		return nil, false
	}
	if ci, ok := cond.X.(*ast.Ident); !ok || b.info.Uses[ci] != iobj {
		return nil, false
	}
	post, ok := fs.Post.(*ast.IncDecStmt)
	if !ok || post.Tok != token.INC {
		return nil, false
	}
	if pi, ok := post.X.(*ast.Ident); !ok || b.info.Uses[pi] != iobj {
		return nil, false
	}
	if len(fs.Body.List) == 0 {
		return nil, false
	}
	// locals of the iteration (x := e, or a, b := e1, e2) may precede the test
	var locals []*ast.AssignStmt
	for _, s := range fs.Body.List[:len(fs.Body.List)-1] {
		d, ok := s.(*ast.AssignStmt)
		if !ok || d.Tok != token.DEFINE || len(d.Lhs) != len(d.Rhs) {
			return nil, false
		}
		for _, l := range d.Lhs {
			if _, isID := l.(*ast.Ident); !isID {
				return nil, false
			}
		}
		locals = append(locals, d)
	}
	is, ok := fs.Body.List[len(fs.Body.List)-1].(*ast.IfStmt)
	if !ok || is.Init != nil || is.Else != nil || len(is.Body.List) != 1 {
		return nil, false
	}
	ret, ok := is.Body.List[0].(*ast.ReturnStmt)
	if !ok {
		return nil, false
	}
	usesI := false
	ast.Inspect(ret, func(n ast.Node) bool {
		if id, ok := n.(*ast.Ident); ok && b.info.Uses[id] == iobj {
			usesI = true
		}
		return true
	})
	if usesI {
		return nil, false
	}
	b.sumDepth++
	bound := sym.V(fmt.Sprintf("$k%d", b.sumDepth))
	lo := b.expr(init.Rhs[0], st)
	hi := b.expr(cond.Y, st)
	inner := st.clone()
	inner.env[iobj] = bound
	nEff := len(inner.effects)
	for _, d := range locals {
		vals := make([]sym.Expr, len(d.Rhs))
		for i, r := range d.Rhs {
			vals[i] = b.expr(r, inner)
		}
		for i, l := range d.Lhs {
			if obj := b.info.Defs[l.(*ast.Ident)]; obj != nil {
				inner.env[obj] = vals[i]
			}
		}
	}
	p := b.expr(is.Cond, inner)
	_ = nEff
	b.sumDepth--
	atom := sym.F("exists", lo, hi, p)
	found := st.clone()
	found.conds = append(found.conds, atom)
	var rs []sym.Expr
	for _, r := range ret.Results {
		rs = append(rs, b.expr(r, found))
	}
	b.end(found, "return", rs)
	st.conds = append(st.conds, sym.Logic{Op: "!", Args: []sym.Expr{atom}})
	return []*state{st}, true
}

// ConstTable returns the initialiser of a package-level variable that is only ever read (a lookup
// table), with the type information of its package; nil otherwise. Set by the caller.
var ConstTable func(obj types.Object) (*ast.CompositeLit, *types.Info)

// constTable: tbl[k] on a read-only package-level map, array or slice literal is the chain
// ite(k == k1, v1, ite(k == k2, v2, … zero)).
func (b *builder) constTable(x *ast.IndexExpr, st *state) sym.Expr {
	if ConstTable == nil {
		return nil
	}
	var id *ast.Ident
	switch f := x.X.(type) {
	case *ast.Ident:
		id = f
	case *ast.SelectorExpr:
		id = f.Sel
	}
	if id == nil {
		return nil
	}
	obj, _ := b.info.Uses[id].(*types.Var)
	if obj == nil {
		return nil
	}
	lit, info := ConstTable(obj)
	if lit == nil {
		return nil
	}
	var elem types.Type
	isMap := false
	switch t := obj.Type().Underlying().(type) {
	case *types.Map:
		elem, isMap = t.Elem(), true
	case *types.Slice:
		elem = t.Elem()
	case *types.Array:
		elem = t.Elem()
	default:
		return nil
	}
	if !isMap {
		return nil // an index out of range panics: not a total function of the key
	}
	sub := newBuilder(info, lit.Pos(), lit.End())
	empty := &state{env: map[types.Object]sym.Expr{}}
	key := b.expr(x.Index, st)
	var out sym.Expr = zeroOf(elem)
	if out == nil {
		return nil
	}
	for i := len(lit.Elts) - 1; i >= 0; i-- {
		kv, ok := lit.Elts[i].(*ast.KeyValueExpr)
		if !ok {
			return nil
		}
		if tv, ok := info.Types[kv.Key]; !ok || tv.Value == nil {
			return nil
		}
		if tv, ok := info.Types[kv.Value]; !ok || tv.Value == nil {
			return nil
		}
		out = sym.Ite{Cond: sym.Cmp{Op: "==", L: key, R: sub.expr(kv.Key, empty)}, A: sub.expr(kv.Value, empty), B: out}
	}
	return out
}

// zeroOf: the zero value of a basic numeric type, or the named constant of a defined integer
// type whose value is 0.
func zeroOf(t types.Type) sym.Expr {
	if n, ok := t.(*types.Named); ok {
		if bt, ok := n.Underlying().(*types.Basic); ok && bt.Info()&types.IsInteger != 0 && n.Obj().Pkg() != nil {
			sc := n.Obj().Pkg().Scope()
			for _, name := range sc.Names() {
				if c, ok := sc.Lookup(name).(*types.Const); ok && types.Identical(c.Type(), n) {
					if v, exact := constant.Int64Val(c.Val()); exact && v == 0 {
						return sym.V(ConstName(c.Name()))
					}
				}
			}
		}
		return nil
	}
	if bt, ok := t.Underlying().(*types.Basic); ok && bt.Info()&types.IsNumeric != 0 {
		return sym.N(0)
	}
	return nil
}

// Resolver finds the declaration and type information of a module function (set by the caller).
var Resolver func(fn *types.Func) (*ast.FuncDecl, *types.Info)

// InlineExported names the exported functions that are expanded like unexported helpers (set by a
// rule whose subject is the type these methods belong to: the observers of a container inside
// the container's own methods).
var InlineExported func(fn *types.Func) bool

// inline evaluates a call of a pure, loop-free module function as an expression.
func (b *builder) inline(call *ast.CallExpr, args []sym.Expr, st *state) (sym.Expr, bool) {
	if Resolver == nil || b.inlineDepth > 3 {
		return nil, false
	}
	var fn *types.Func
	var recvText string
	switch f := call.Fun.(type) {
	case *ast.Ident:
		fn, _ = b.info.Uses[f].(*types.Func)
	case *ast.SelectorExpr:
		fn, _ = b.info.Uses[f.Sel].(*types.Func)
		if sel := b.info.Selections[f]; sel != nil {
			recvText = types.ExprString(f.X)
		}
	case *ast.IndexExpr:
		if id, ok := f.X.(*ast.Ident); ok {
			fn, _ = b.info.Uses[id].(*types.Func)
		}
	}
	if fn == nil {
		return nil, false
	}
	// only unexported helpers of the package being analysed: exported functions and methods
	// (Ring.IsFull, Bst.Max, RoundDigit, ...) are named operators with their own rules
	if fn.Exported() && (InlineExported == nil || !InlineExported(fn.Origin())) {
		return nil, false
	}
	decl, info := Resolver(fn.Origin())
	if decl == nil || info != b.info || decl.Body == nil || decl.Type.Results == nil || len(decl.Type.Results.List) != 1 {
		return nil, false
	}
	sub := newBuilder(info, decl.Body.Pos(), decl.Body.End())
	sub.inlineDepth = b.inlineDepth + 1
	var params []string
	if decl.Type.Params != nil {
		for _, f := range decl.Type.Params.List {
			for _, nm := range f.Names {
				if obj := info.Defs[nm]; obj != nil {
					sub.params[obj] = true
					params = append(params, nm.Name)
				}
			}
		}
	}
	if len(params) != len(args) {
		return nil, false
	}
	sub.run(decl.Body.List, &state{env: map[types.Object]sym.Expr{}})
	m := sub.finish()
	if len(m.Unsupported) > 0 || len(m.State) > 0 || len(m.Paths) == 0 {
		return nil, false
	}
	ren := map[string]sym.Expr{}
	for i, p := range params {
		ren[p] = args[i]
	}
	// the callee's receiver is the expression the method was selected on
	if decl.Recv != nil && len(decl.Recv.List) == 1 && len(decl.Recv.List[0].Names) == 1 && recvText != "" {
		rn := decl.Recv.List[0].Names[0].Name
		for _, r := range m.Reads {
			if strings.HasPrefix(r, rn+".") {
				name := recvText + r[len(rn):]
				ren[r] = sym.V(name)
				b.reads[name] = true
				if _, ok := b.m.ReadExprs[name]; !ok {
					if ex, ok := m.ReadExprs[r].(*ast.SelectorExpr); ok {
						if f, isSel := call.Fun.(*ast.SelectorExpr); isSel {
							// the same selector path, rooted at the caller's receiver expression
							b.m.ReadExprs[name] = &ast.SelectorExpr{X: f.X, Sel: ex.Sel}
						}
					}
				}
			}
		}
	}
	var out sym.Expr
	for i := len(m.Paths) - 1; i >= 0; i-- {
		p := m.Paths[i]
		if len(p.Effects) > 0 || len(p.Ret) != 1 || len(p.Sends) > 0 {
			return nil, false
		}
		ret := sym.Subst(p.Ret[0], ren)
		if out == nil {
			out = ret
			continue
		}
		var cond sym.Expr
		for _, c := range p.Conds {
			cs := sym.Subst(c, ren)
			if cond == nil {
				cond = cs
			} else {
				cond = sym.Logic{Op: "&&", Args: []sym.Expr{cond, cs}}
			}
		}
		if cond == nil {
			out = ret
		} else {
			out = sym.Ite{Cond: cond, A: ret, B: out}
		}
	}
	return out, out != nil
}

// receiverName: "Ring" for the only *helper.Ring used between lo and hi, otherwise the expression text.
func (b *builder) receiverName(x ast.Expr) string {
	text := types.ExprString(x)
	tn := ""
	if t := b.info.TypeOf(x); t != nil {
		if p, ok := t.(*types.Pointer); ok {
			t = p.Elem()
		}
		if n, ok := t.(*types.Named); ok {
			tn = n.Obj().Name()
		}
	}
	if tn == "" {
		return text
	}
	if b.recvByType == nil {
		b.recvByType = map[string]map[string]bool{}
		for sel, s := range b.info.Selections {
			if sel.Pos() < b.lo || sel.Pos() > b.hi || s.Kind() != types.MethodVal {
				continue
			}
			rt := ""
			if t := b.info.TypeOf(sel.X); t != nil {
				if p, ok := t.(*types.Pointer); ok {
					t = p.Elem()
				}
				if n, ok := t.(*types.Named); ok {
					rt = n.Obj().Name()
				}
			}
			if rt == "" {
				continue
			}
			if b.recvByType[rt] == nil {
				b.recvByType[rt] = map[string]bool{}
			}
			b.recvByType[rt][types.ExprString(sel.X)] = true
		}
	}
	if len(b.recvByType[tn]) == 1 {
		return tn
	}
	return text
}

func (b *builder) lookup(obj types.Object, name string, st *state) sym.Expr {
	if v, ok := st.env[obj]; ok {
		return v
	}
	return sym.V(name)
}

func (b *builder) assign(x *ast.AssignStmt, st *state) {
	if len(x.Lhs) != len(x.Rhs) {
		// tuple assignment from a call: results are opaque
		for i, l := range x.Lhs {
			b.set(l, sym.F(fmt.Sprintf("result%d", i), b.expr(x.Rhs[0], st)), st)
		}
		return
	}
	vals := make([]sym.Expr, len(x.Rhs))
	for i, r := range x.Rhs {
		vals[i] = b.expr(r, st)
	}
	for i, l := range x.Lhs {
		v := vals[i]
		switch x.Tok {
		case token.ADD_ASSIGN:
			v = sym.Add(b.expr(l, st), v)
		case token.SUB_ASSIGN:
			v = sym.Sub(b.expr(l, st), v)
		case token.MUL_ASSIGN:
			v = sym.Mul(b.expr(l, st), v)
		case token.QUO_ASSIGN:
			v = sym.Div(b.expr(l, st), v)
		}
		b.set(l, v, st)
	}
}

func (b *builder) set(l ast.Expr, v sym.Expr, st *state) {
	id, ok := l.(*ast.Ident)
	if !ok {
		st.effects = append(st.effects, "assign "+types.ExprString(l))
		// a field of a variable (r.begin = ...) is tracked as a remembered value as well
		if sel, isSel := l.(*ast.SelectorExpr); isSel {
			if _, isID := sel.X.(*ast.Ident); isID {
				if st.fields == nil {
					st.fields = map[string]sym.Expr{}
				}
				st.fields[types.ExprString(sel)] = v
			}
		}
		return
	}
	if id.Name == "_" {
		return
	}
	obj := b.info.Defs[id]
	if obj == nil {
		obj = b.info.Uses[id]
	}
	if obj == nil {
		return
	}
	st.env[obj] = v
}

// ConstName is the symbol used for a named constant.
func ConstName(name string) string { return "#" + name }

func (b *builder) expr(e ast.Expr, st *state) sym.Expr {
	if tv, ok := b.info.Types[e]; ok && tv.Value != nil {
		// named constants of defined types keep their name
		if id := constIdent(e); id != nil {
			if c, ok := b.info.Uses[id].(*types.Const); ok {
				if _, named := c.Type().(*types.Named); named {
					return sym.V(ConstName(c.Name()))
				}
			}
		}
		switch tv.Value.Kind() {
		case constant.Int, constant.Float:
			if n, ok := sym.ParseNum(tv.Value.ExactString()); ok {
				return n
			}
		case constant.Bool:
			if constant.BoolVal(tv.Value) {
				return sym.V("#true")
			}
			return sym.V("#false")
		}
	}
	switch x := e.(type) {
	case *ast.ParenExpr:
		return b.expr(x.X, st)
	case *ast.BasicLit:
		if n, ok := sym.ParseNum(x.Value); ok {
			return n
		}
	case *ast.Ident:
		obj := b.info.Uses[x]
		if obj == nil {
			obj = b.info.Defs[x]
		}
		if obj != nil {
			if v, ok := st.env[obj]; ok {
				return v
			}
			if b.captured(obj) {
				b.reads[x.Name] = true
				if _, ok := b.m.ReadExprs[x.Name]; !ok {
					b.m.ReadExprs[x.Name] = x
				}
			}
		}
		if x.Name == "true" || x.Name == "false" {
			return sym.V("#" + x.Name)
		}
		return sym.V(x.Name)
	case *ast.SelectorExpr:
		if id, ok := x.X.(*ast.Ident); ok {
			if _, isPkg := b.info.Uses[id].(*types.PkgName); isPkg {
				if c, ok := b.info.Uses[x.Sel].(*types.Const); ok {
					if _, named := c.Type().(*types.Named); named {
						return sym.V(ConstName(c.Name()))
					}
				}
				return sym.V(id.Name + "." + x.Sel.Name)
			}
		}
		name := types.ExprString(x)
		if v, ok := st.fields[name]; ok {
			return v
		}
		b.reads[name] = true
		if _, ok := b.m.ReadExprs[name]; !ok {
			b.m.ReadExprs[name] = x
		}
		return sym.V(name)
	case *ast.UnaryExpr:
		switch x.Op {
		case token.SUB:
			return sym.Neg{X: b.expr(x.X, st)}
		case token.NOT:
			return sym.Logic{Op: "!", Args: []sym.Expr{b.expr(x.X, st)}}
		case token.ADD:
			return b.expr(x.X, st)
		}
	case *ast.BinaryExpr:
		l, r := b.expr(x.X, st), b.expr(x.Y, st)
		switch x.Op {
		case token.ADD:
			return sym.Add(l, r)
		case token.SUB:
			return sym.Sub(l, r)
		case token.MUL:
			return sym.Mul(l, r)
		case token.QUO:
			return sym.Div(l, r)
		case token.LSS, token.LEQ, token.GTR, token.GEQ, token.EQL, token.NEQ:
			return sym.Cmp{Op: x.Op.String(), L: l, R: r}
		case token.LAND:
			return sym.Logic{Op: "&&", Args: []sym.Expr{l, r}}
		case token.LOR:
			return sym.Logic{Op: "||", Args: []sym.Expr{l, r}}
		case token.REM:
			return sym.F("mod", l, r)
		}
	case *ast.CallExpr:
		if tv, ok := b.info.Types[x.Fun]; ok && tv.IsType() && len(x.Args) == 1 {
			if Truncates(tv.Type, b.info.TypeOf(x.Args[0])) {
				return sym.F("trunc", b.expr(x.Args[0], st))
			}
			return b.expr(x.Args[0], st) // numeric conversion
		}
		name := calleeText(x.Fun)
		var args []sym.Expr
		for _, a := range x.Args {
			args = append(args, b.expr(a, st))
		}
		switch name {
		case "math.Max":
			return sym.F("max", args...)
		case "math.Min":
			return sym.F("min", args...)
		case "math.Abs":
			return sym.F("abs", args...)
		case "math.Sqrt":
			return sym.F("sqrt", args...)
		case "math.Pow":
			return sym.F("pow", args...)
		}
		// a call of a function or method of the module whose body is loop-free and free of effects:
		// its value is the conditional expression of its returns (an extracted helper must not
		// change what is decided)
		if v, ok := b.inline(x, args, st); ok {
			return v
		}
		// a method call on an object: opaque; named by the receiver's type when the analysed code
		// uses one object of that type (so that renaming the variable changes nothing), else by
		// the receiver expression
		if sel, ok := x.Fun.(*ast.SelectorExpr); ok {
			if s := b.info.Selections[sel]; s != nil {
				st.effects = append(st.effects, types.ExprString(x))
				return sym.F(b.receiverName(sel.X)+"."+sel.Sel.Name, args...)
			}
		}
		return sym.F(name, args...)
	case *ast.IndexExpr:
		if t := b.constTable(x, st); t != nil {
			return t
		}
		return sym.F("index", b.expr(x.X, st), b.expr(x.Index, st))
	case *ast.StarExpr:
		return b.expr(x.X, st)
	}
	return sym.V("?" + types.ExprString(e))
}

func constIdent(e ast.Expr) *ast.Ident {
	switch x := e.(type) {
	case *ast.Ident:
		return x
	case *ast.SelectorExpr:
		return x.Sel
	}
	return nil
}

func calleeText(e ast.Expr) string {
	switch x := e.(type) {
	case *ast.Ident:
		return x.Name
	case *ast.SelectorExpr:
		return calleeText(x.X) + "." + x.Sel.Name
	case *ast.IndexExpr:
		return calleeText(x.X)
	case *ast.IndexListExpr:
		return calleeText(x.X)
	}
	return "?"
}

// ---------------------------------------------------------------------------
// Evaluation on finite abstract domains.

// Oracle decides atoms the evaluator cannot: it receives the canonical comparison and returns
// (value, known).
type Oracle func(c sym.Cmp) (bool, bool)

// EvalBool evaluates a condition under an assignment of symbols to symbols/numbers.
func EvalBool(e sym.Expr, env map[string]sym.Expr, oracle Oracle) (bool, bool) {
	switch x := e.(type) {
	case sym.Var:
		if v, ok := env[x.Name]; ok {
			if vv, ok := v.(sym.Var); ok {
				if vv.Name == "#true" {
					return true, true
				}
				if vv.Name == "#false" {
					return false, true
				}
			}
		}
		if x.Name == "#true" {
			return true, true
		}
		if x.Name == "#false" {
			return false, true
		}
		return false, false
	case sym.Logic:
		switch x.Op {
		case "!":
			v, ok := EvalBool(x.Args[0], env, oracle)
			return !v, ok
		case "&&":
			all := true
			for _, a := range x.Args {
				v, ok := EvalBool(a, env, oracle)
				if ok && !v {
					return false, true
				}
				if !ok {
					all = false
				}
			}
			return true, all
		case "||":
			all := true
			for _, a := range x.Args {
				v, ok := EvalBool(a, env, oracle)
				if ok && v {
					return true, true
				}
				if !ok {
					all = false
				}
			}
			return false, all
		}
	case sym.Cmp:
		l, r := sym.Subst(x.L, env), sym.Subst(x.R, env)
		// symbolic constants: equal iff same name
		lv, lok := l.(sym.Var)
		rv, rok := r.(sym.Var)
		if lok && rok && strings.HasPrefix(lv.Name, "#") && strings.HasPrefix(rv.Name, "#") {
			switch x.Op {
			case "==":
				return lv.Name == rv.Name, true
			case "!=":
				return lv.Name != rv.Name, true
			}
		}
		// numeric
		ln, lnum := l.(sym.Num)
		rn, rnum := r.(sym.Num)
		if lnum && rnum {
			c := ln.V.Cmp(rn.V)
			switch x.Op {
			case "<":
				return c < 0, true
			case "<=":
				return c <= 0, true
			case ">":
				return c > 0, true
			case ">=":
				return c >= 0, true
			case "==":
				return c == 0, true
			case "!=":
				return c != 0, true
			}
		}
		// syntactically identical sides
		if sym.Equal(l, r) {
			switch x.Op {
			case "==", "<=", ">=":
				return true, true
			case "!=", "<", ">":
				return false, true
			}
		}
		if oracle != nil {
			return oracle(sym.Cmp{Op: x.Op, L: l, R: r})
		}
	}
	return false, false
}

// Select returns the paths whose conditions all evaluate to true; ok=false if some condition is undecided.
func (m *Machine) Select(env map[string]sym.Expr, oracle Oracle) ([]*Path, bool) {
	var out []*Path
	for _, p := range m.Paths {
		take := true
		for _, c := range p.Conds {
			v, ok := EvalBool(c, env, oracle)
			if !ok {
				return nil, false
			}
			if !v {
				take = false
				break
			}
		}
		if take {
			out = append(out, p)
		}
	}
	return out, true
}

// Truncates: a conversion to an integer type of a value that may be fractional (a float or a
// generic number) is not the identity.
func Truncates(to, from types.Type) bool {
	if to == nil || from == nil {
		return false
	}
	bt, ok := to.Underlying().(*types.Basic)
	if !ok || bt.Info()&types.IsInteger == 0 {
		return false
	}
	if _, isTP := from.(*types.TypeParam); isTP {
		return true
	}
	if fb, ok := from.Underlying().(*types.Basic); ok && fb.Info()&types.IsFloat != 0 {
		return true
	}
	return false
}
