package shape

import (
	"fmt"
	"go/ast"
	"go/token"
	"go/types"
	"sort"
	"strings"

	"verif/checker/internal/dtab"
	"verif/checker/internal/lin"
	"verif/checker/internal/load"
	"verif/checker/internal/sym"
)

// Terms derives, for the streams of one Result, a symbolic description of the value an element
// carries as a function of the day it belongs to: sources are `src:<param>`, a value taken
// s days earlier is at(x, s), outputs of nested indicators are uninterpreted operators
// `ind:<type>{config}#k(args…)`, stateless closures are inlined as expressions, and anything
// stateful becomes a named opaque operator. Nothing is evaluated numerically.
type Terms struct {
	R        *Result
	Prog     *load.Program
	memo     map[*Stream]sym.Expr
	mach     map[*ast.FuncLit]*dtab.Machine
	Opaque   []string // reasons why some term is only an opaque operator
	acc      map[types.Object]bool
	refs     map[*types.Func]*Closure
	closures map[string]*Closure
	stages   map[string]*Stage
}

// ClosureByName returns the stateful closure behind an operator `closure:<name>`.
func (t *Terms) ClosureByName(name string) *Closure { return t.closures[name] }

// StageByName returns the hand-written stage behind an operator `stage:<name>`.
func (t *Terms) StageByName(name string) *Stage { return t.stages[name] }

func initTerms(t *Terms) {
	t.closures = map[string]*Closure{}
	t.stages = map[string]*Stage{}
	t.acc = map[types.Object]bool{}

}

func NewTerms(p *load.Program, r *Result) *Terms {
	t := &Terms{R: r, Prog: p, memo: map[*Stream]sym.Expr{}, mach: map[*ast.FuncLit]*dtab.Machine{}}
	initTerms(t)
	return t
}

func (t *Terms) opaque(why string) {
	for _, o := range t.Opaque {
		if o == why {
			return
		}
	}
	t.Opaque = append(t.Opaque, why)
}

// ObjName is the canonical name of an indicator/strategy object in operator symbols.
func ObjName(o *Object) string {
	if o == nil {
		return "?"
	}
	tn := o.TypeName()
	if o.Sym || o.Iface {
		return tn + "@" + o.Path
	}
	var fs []string
	for name, c := range o.Fields {
		fs = append(fs, name+"="+valName(c.V))
	}
	sort.Strings(fs)
	return tn + "{" + strings.Join(fs, ",") + "}"
}

func valName(v Value) string {
	switch x := v.(type) {
	case *Object:
		return ObjName(x)
	case IntV, NumV:
		if s, ok := NumSym(x); ok {
			return sym.CanonString(s)
		}
		return "?"
	case ConstV:
		return "#" + x.Name
	}
	return "?"
}

// Of returns the term of a stream.
func (t *Terms) Of(s *Stream) sym.Expr {
	if e, ok := t.memo[s]; ok {
		return e
	}
	t.memo[s] = sym.V(fmt.Sprintf("cycle:s%d", s.ID))
	e := t.compute(s)
	t.memo[s] = e
	return e
}

func (t *Terms) compute(s *Stream) sym.Expr {
	if s.Param != "" {
		return sym.V("src:" + s.Param)
	}
	if s.Ind != nil {
		var args []sym.Expr
		for _, a := range s.Ind.Args {
			args = append(args, t.Of(a))
		}
		return sym.Call{Fn: fmt.Sprintf("ind:%s#%d", ObjName(s.Ind.Obj), s.Ind.OutIdx), Args: args}
	}
	st := s.Producer
	if st == nil {
		t.opaque("stream " + s.Name + " has no producer")
		return sym.V(fmt.Sprintf("unknown:s%d", s.ID))
	}
	// delays of the inputs at this stage: how many days earlier than the output's day each input element is
	delays := map[*Stream]*lin.Expr{}
	var maxLead *lin.Expr
	for _, in := range st.Ins {
		if !in.InLoop || in.LeadAt == nil {
			continue
		}
		if maxLead == nil {
			maxLead = in.LeadAt
		} else {
			maxLead = lin.Max(maxLead, in.LeadAt)
		}
	}
	nonEmpty := s.Len
	for _, in := range st.Ins {
		if in.InLoop && in.LeadAt != nil && maxLead != nil {
			d := lin.Sub(maxLead, in.LeadAt)
			d = simplifyNonEmpty(t.R.G, nonEmpty, d)
			delays[in.S] = d
		}
	}
	// the steady-state send that feeds s
	var send *SendInfo
	alts := 0
	for _, si := range st.Sends {
		if si.Out == s && si.InLoop && si.Steady {
			if si.Cond == "branch" {
				alts++
			}
			send = si // the last steady-state send
		}
	}
	opq := func(why string) sym.Expr {
		t.opaque(why)
		var args []sym.Expr
		for _, in := range st.Ins {
			args = append(args, t.delayed(in.S, delays))
		}
		name := st.FnName + "/" + st.Construct
		t.stages[name] = st
		return sym.Call{Fn: "stage:" + name, Args: args}
	}
	if send == nil {
		return opq("no steady-state send for " + s.Name + " in " + st.FnName)
	}
	if alts > 0 || send.Cond == "pred" || send.Cond == "ringfull" {
		return opq("conditional send in " + st.FnName)
	}
	e, err := t.exprTerm(send.Frame, send.Expr, delays)
	if err != nil {
		return opq(err.Error() + " in " + st.FnName)
	}
	return e
}

func simplifyNonEmpty(g *lin.Ctx, nonEmpty, d *lin.Expr) *lin.Expr {
	if nonEmpty == nil {
		return lin.Canon(g, d)
	}
	var res *lin.Expr
	for _, l := range lin.Leaves(g, nonEmpty) {
		c := g.With(l.Conds...).With(l.Val.Add(lin.Const(-1)))
		if lin.Infeasible(c.Cs) {
			continue
		}
		s := lin.Canon(c, d)
		if res == nil {
			res = s
		} else if res.String() != s.String() {
			return lin.Canon(g, d)
		}
	}
	if res == nil {
		return lin.Canon(g, d)
	}
	return res
}

func (t *Terms) delayed(s *Stream, delays map[*Stream]*lin.Expr) sym.Expr {
	e := t.Of(s)
	d, ok := delays[s]
	if !ok || d == nil {
		return e
	}
	if d.IsLin() && d.T.IsConst() && d.T.C == 0 {
		return e
	}
	return Delay(e, LinToSym(d))
}

// Delay pushes a delay of d days down to the sources (indicators and arithmetic are time-invariant).
func Delay(e sym.Expr, d sym.Expr) sym.Expr {
	switch x := e.(type) {
	case sym.Var:
		if strings.HasPrefix(x.Name, "src:") {
			return sym.Call{Fn: "at", Args: []sym.Expr{x, d}}
		}
		return x
	case sym.Num:
		return x
	case sym.Neg:
		return sym.Neg{X: Delay(x.X, d)}
	case sym.Bin:
		return sym.Bin{Op: x.Op, L: Delay(x.L, d), R: Delay(x.R, d)}
	case sym.Cmp:
		return sym.Cmp{Op: x.Op, L: Delay(x.L, d), R: Delay(x.R, d)}
	case sym.Logic:
		as := make([]sym.Expr, len(x.Args))
		for i, a := range x.Args {
			as[i] = Delay(a, d)
		}
		return sym.Logic{Op: x.Op, Args: as}
	case sym.Ite:
		return sym.Ite{Cond: Delay(x.Cond, d), A: Delay(x.A, d), B: Delay(x.B, d)}
	case sym.Call:
		if x.Fn == "at" && len(x.Args) == 2 {
			return sym.Call{Fn: "at", Args: []sym.Expr{x.Args[0], sym.Add(x.Args[1], d)}}
		}
		as := make([]sym.Expr, len(x.Args))
		for i, a := range x.Args {
			as[i] = Delay(a, d)
		}
		return sym.Call{Fn: x.Fn, Args: as}
	}
	return e
}

// exprTerm evaluates a send expression symbolically in the stage's frame.
func (t *Terms) exprTerm(fr *Frame, e ast.Expr, delays map[*Stream]*lin.Expr) (sym.Expr, error) {
	switch x := e.(type) {
	case *ast.ParenExpr:
		return t.exprTerm(fr, x.X, delays)
	case *ast.Ident:
		obj := fr.Info.Uses[x]
		if obj == nil {
			obj = fr.Info.Defs[x]
		}
		if obj == nil {
			return nil, fmt.Errorf("unresolved %s", x.Name)
		}
		cell := fr.Env.Lookup(obj)
		if cell == nil {
			if c, ok := obj.(*types.Const); ok {
				return sym.V("#" + c.Name()), nil
			}
			return nil, fmt.Errorf("unbound %s", x.Name)
		}
		return t.valueTermAt(cell.V, x.Name, delays, x.Pos())
	case *ast.BasicLit:
		if n, ok := sym.ParseNum(x.Value); ok {
			return n, nil
		}
	case *ast.CallExpr:
		if tv, ok := fr.Info.Types[x.Fun]; ok && tv.IsType() && len(x.Args) == 1 {
			inner, err := t.exprTerm(fr, x.Args[0], delays)
			if err == nil && dtab.Truncates(tv.Type, fr.Info.TypeOf(x.Args[0])) {
				return sym.F("trunc", inner), nil
			}
			return inner, err
		}
		var args []sym.Expr
		for _, a := range x.Args {
			at, err := t.exprTerm(fr, a, delays)
			if err != nil {
				return nil, err
			}
			args = append(args, at)
		}
		if id, ok := x.Fun.(*ast.Ident); ok {
			if obj := fr.Info.Uses[id]; obj != nil {
				if cell := fr.Env.Lookup(obj); cell != nil {
					if cl, ok := cell.V.(*Closure); ok {
						return t.applyClosure(cl, args)
					}
					if ref, ok := cell.V.(*FuncRef); ok {
						if cl := t.funcRefClosure(ref); cl != nil {
							return t.applyClosure(cl, args)
						}
					}
				}
			}
		}
		return nil, fmt.Errorf("call of %s", types.ExprString(x.Fun))
	case *ast.BinaryExpr:
		l, err := t.exprTerm(fr, x.X, delays)
		if err != nil {
			return nil, err
		}
		r, err := t.exprTerm(fr, x.Y, delays)
		if err != nil {
			return nil, err
		}
		switch x.Op.String() {
		case "+", "-", "*", "/":
			return sym.Bin{Op: x.Op.String(), L: l, R: r}, nil
		}
	case *ast.SelectorExpr:
		if tv, ok := fr.Info.Types[e]; ok && tv.Value != nil {
			if id := x.Sel; id != nil {
				if c, ok := fr.Info.Uses[id].(*types.Const); ok {
					if _, named := c.Type().(*types.Named); named {
						return sym.V("#" + c.Name()), nil
					}
				}
			}
		}
	}
	return nil, fmt.Errorf("expression %s", types.ExprString(e))
}

func (t *Terms) valueTerm(v Value, name string, delays map[*Stream]*lin.Expr) (sym.Expr, error) {
	return t.valueTermAt(v, name, delays, token.NoPos)
}

// valueTermAt: use is where the value is read (a loop-carried variable read before its update
// holds the previous iteration's value).
func (t *Terms) valueTermAt(v Value, name string, delays map[*Stream]*lin.Expr, use token.Pos) (sym.Expr, error) {
	switch x := v.(type) {
	case ElemV:
		if x.Carried {
			if x.Self != nil && t.acc[x.Self] {
				return sym.V("acc"), nil
			}
			if x.Self != nil && x.Def != nil && use.IsValid() && use > x.Def.End() && len(t.acc) == 0 {
				switch x.Init.(type) {
				case IntV, NumV:
					// a fold over the input: acc' = Def(acc, elements), the updated value is what is read
					init, err := t.valueTermAt(x.Init, name, delays, token.NoPos)
					if err != nil {
						return nil, err
					}
					t.acc[x.Self] = true
					body, err := t.exprTerm(x.Fr, x.Def, delays)
					delete(t.acc, x.Self)
					if err != nil {
						return nil, err
					}
					return sym.Call{Fn: "scan", Args: []sym.Expr{body, init}}, nil
				}
			}
			if e, ok, err := t.foldThroughLocal(x, name, delays); ok {
				return e, err
			}
			return nil, fmt.Errorf("%s depends on loop state", name)
		}
		if e, ok, err := t.foldThroughLocal(x, name, delays); ok {
			return e, err
		}
		if x.Def != nil && x.Fr != nil {
			return t.exprTerm(x.Fr, x.Def, delays)
		}
		if len(x.Deps) == 1 {
			return t.delayed(x.Deps[0], delays), nil
		}
		return nil, fmt.Errorf("%s depends on loop state", name)
	case IntV, NumV:
		if s, ok := NumSym(x); ok {
			return s, nil
		}
		return nil, fmt.Errorf("%s has no symbolic value", name)
	case ConstV:
		n := x.Name
		if i := strings.LastIndex(n, "."); i >= 0 {
			n = n[i+1:]
		}
		return sym.V("#" + n), nil
	}
	return nil, fmt.Errorf("%s is %s", name, showVal(v))
}

// funcRefClosure presents a declared function or method value (helper.Map(c, r.decide)) as a
// closure: the body of the declaration with the receiver bound to the value it was taken from.
func (t *Terms) funcRefClosure(ref *FuncRef) *Closure {
	if cl, ok := t.refs[ref.Fn]; ok {
		return cl
	}
	fi := t.Prog.Decls[ref.Fn.Origin()]
	if fi == nil || fi.Decl.Body == nil {
		return nil
	}
	env := NewEnv(nil)
	if fi.Decl.Recv != nil && len(fi.Decl.Recv.List) == 1 && len(fi.Decl.Recv.List[0].Names) == 1 && ref.Recv != nil {
		if obj := fi.Pkg.TypesInfo.Defs[fi.Decl.Recv.List[0].Names[0]]; obj != nil {
			env.Define(obj, ref.Recv)
		}
	}
	lit := &ast.FuncLit{Type: fi.Decl.Type, Body: fi.Decl.Body}
	cl := &Closure{Lit: lit, Env: env, Frame: &Frame{Fn: ref.Fn, FnName: load.FuncName(ref.Fn), Info: fi.Pkg.TypesInfo, PkgPath: fi.Pkg.PkgPath, Env: env, Recv: ref.Recv}}
	if t.refs == nil {
		t.refs = map[*types.Func]*Closure{}
	}
	t.refs[ref.Fn] = cl
	return cl
}

// ClosureName is a position-independent name for a closure: owner function + ordinal.
func (t *Terms) ClosureName(cl *Closure) string {
	owner := "?"
	if cl.Frame != nil {
		owner = cl.Frame.FnName
		if cl.Frame.Decl != nil {
			n := 0
			found := 0
			ast.Inspect(cl.Frame.Decl.Body, func(nd ast.Node) bool {
				if fl, ok := nd.(*ast.FuncLit); ok {
					n++
					if fl == cl.Lit {
						found = n
					}
				}
				return true
			})
			return fmt.Sprintf("%s#%d", owner, found)
		}
	}
	return owner + "#?"
}

func (t *Terms) Machine(cl *Closure) *dtab.Machine {
	if m, ok := t.mach[cl.Lit]; ok {
		return m
	}
	m := dtab.FromFuncLit(cl.Frame.Info, cl.Lit)
	t.mach[cl.Lit] = m
	return m
}

// applyClosure inlines a stateless closure; a stateful one becomes a named opaque operator.
func (t *Terms) applyClosure(cl *Closure, args []sym.Expr) (sym.Expr, error) {
	m := t.Machine(cl)
	name := t.ClosureName(cl)
	stateful := len(m.Unsupported) > 0 || len(m.State) > 0
	for _, p := range m.Paths {
		if len(p.Effects) > 0 {
			stateful = true
		}
		if p.Exit != "return" || len(p.Ret) != 1 {
			stateful = true
		}
	}
	if stateful || len(m.Params) != len(args) {
		t.opaque("stateful closure " + name)
		t.closures[name] = cl
		return sym.Call{Fn: "closure:" + name, Args: args}, nil
	}
	sub := map[string]sym.Expr{}
	for i, p := range m.Params {
		sub[p] = args[i]
	}
	for _, r := range m.Reads {
		// a field of a parameter (snapshot.Close): a projection of the argument
		if sel, ok := m.ReadExprs[r].(*ast.SelectorExpr); ok {
			if id, ok := sel.X.(*ast.Ident); ok {
				if a, isParam := sub[id.Name]; isParam {
					if _, isSel := cl.Frame.Info.Selections[sel]; isSel {
						sub[r] = sym.Call{Fn: "field:" + sel.Sel.Name, Args: []sym.Expr{a}}
						continue
					}
				}
			}
		}
		v, ok := t.readValue(cl, m.ReadExprs[r])
		if !ok {
			v = sym.V("cfg?:" + r)
			t.opaque("unresolved configuration " + r + " in " + name)
		}
		sub[r] = v
	}
	// paths are exclusive and exhaustive: fold into nested ite
	var out sym.Expr
	// conjuncts that merely negate the condition of an earlier branch are implied by the nesting
	earlier := make([]map[string]bool, len(m.Paths))
	acc := map[string]bool{}
	for i, p := range m.Paths {
		earlier[i] = map[string]bool{}
		for k := range acc {
			earlier[i][k] = true
		}
		var own []string
		for _, c := range p.Conds {
			if lg, ok := c.(sym.Logic); ok && lg.Op == "!" && acc[sym.CanonString(lg.Args[0])] {
				continue
			}
			own = append(own, sym.CanonString(c))
		}
		if len(own) == 1 {
			acc[own[0]] = true
		}
	}
	for i := len(m.Paths) - 1; i >= 0; i-- {
		p := m.Paths[i]
		ret := sym.Subst(p.Ret[0], sub)
		if out == nil {
			out = ret
			continue
		}
		var cond sym.Expr
		for _, c := range p.Conds {
			if lg, ok := c.(sym.Logic); ok && lg.Op == "!" && earlier[i][sym.CanonString(lg.Args[0])] {
				continue
			}
			cs := sym.Subst(c, sub)
			if cond == nil {
				cond = cs
			} else {
				cond = sym.Logic{Op: "&&", Args: []sym.Expr{cond, cs}}
			}
		}
		if cond == nil {
			out = ret
		} else {
			out = sym.Ite{Cond: cond, A: ret, B: out}
		}
	}
	if out == nil {
		return nil, fmt.Errorf("closure %s has no path", name)
	}
	return out, nil
}

// readValue resolves a captured variable or configuration selector of a closure.
func (t *Terms) readValue(cl *Closure, e ast.Expr) (sym.Expr, bool) {
	v, ok := t.envValue(cl, e)
	if !ok {
		return nil, false
	}
	switch x := v.(type) {
	case IntV, NumV:
		return NumSym(x)
	case ConstV:
		n := x.Name
		if i := strings.LastIndex(n, "."); i >= 0 {
			n = n[i+1:]
		}
		return sym.V("#" + n), true
	case BoolV:
		if x.Known {
			if x.Val {
				return sym.V("#true"), true
			}
			return sym.V("#false"), true
		}
	}
	return nil, false
}

func (t *Terms) envValue(cl *Closure, e ast.Expr) (Value, bool) {
	switch x := e.(type) {
	case *ast.Ident:
		obj := cl.Frame.Info.Uses[x]
		if obj == nil {
			return nil, false
		}
		if c := cl.Env.Lookup(obj); c != nil {
			return c.V, true
		}
		return nil, false
	case *ast.SelectorExpr:
		b, ok := t.envValue(cl, x.X)
		if !ok {
			return nil, false
		}
		o, ok := b.(*Object)
		if !ok {
			return nil, false
		}
		if c, ok := o.Fields[x.Sel.Name]; ok {
			return c.V, true
		}
		if o.Sym {
			// a configuration field never materialised during interpretation
			path := joinPath(o.Path, x.Sel.Name)
			if tt := cl.Frame.Info.TypeOf(x); tt != nil {
				if bt, ok := tt.Underlying().(*types.Basic); ok && bt.Info()&types.IsInteger != 0 {
					return IntV{E: lin.V(lin.Sym(path))}, true
				}
			}
			return NumV{From: path, Sym: sym.V("cfg:" + path)}, true
		}
	}
	return nil, false
}

// ReadSym resolves a captured variable or configuration selector of a closure symbolically.
func (t *Terms) ReadSym(cl *Closure, e ast.Expr) (sym.Expr, bool) { return t.readValue(cl, e) }

// ClosureApplication returns the closure a stage applies once per element in its steady-state
// send (`out <- f(a, b)`) and the stream each argument is an element of (nil: not a plain element).
func (t *Terms) ClosureApplication(st *Stage) (*Closure, []*Stream) {
	for _, si := range st.Sends {
		if !si.InLoop || !si.Steady {
			continue
		}
		call, ok := ast.Unparen(si.Expr).(*ast.CallExpr)
		if !ok {
			continue
		}
		id, ok := call.Fun.(*ast.Ident)
		if !ok {
			continue
		}
		obj := si.Frame.Info.Uses[id]
		if obj == nil {
			continue
		}
		cell := si.Frame.Env.Lookup(obj)
		if cell == nil {
			continue
		}
		cl, ok := cell.V.(*Closure)
		if !ok {
			continue
		}
		var ins []*Stream
		for _, a := range call.Args {
			var s *Stream
			if aid, ok := ast.Unparen(a).(*ast.Ident); ok {
				if ao := si.Frame.Info.Uses[aid]; ao != nil {
					if c := si.Frame.Env.Lookup(ao); c != nil {
						if ev, ok := c.V.(ElemV); ok && ev.Def == nil && !ev.Carried && len(ev.Deps) == 1 {
							s = ev.Deps[0]
						}
					}
				}
			}
			ins = append(ins, s)
		}
		return cl, ins
	}
	return nil, nil
}

// foldThroughLocal: `current := f(previous, n); previous = current; send current` - the local is
// the updated loop-carried variable, so its value is the fold scan(f(acc, n), init).
func (t *Terms) foldThroughLocal(x ElemV, name string, delays map[*Stream]*lin.Expr) (sym.Expr, bool, error) {
	if x.Self != nil || x.Def == nil || x.Obj == nil || x.Fr == nil || len(t.acc) != 0 {
		return nil, false, nil
	}
	var carried *ElemV
	x.Fr.Env.Each(func(o types.Object, c *Cell) {
		if ev, ok := c.V.(ElemV); ok && ev.Self != nil && ev.Def != nil {
			if id, isID := ast.Unparen(ev.Def).(*ast.Ident); isID && x.Fr.Info.Uses[id] == x.Obj {
				e2 := ev
				carried = &e2
			}
		}
	})
	if carried == nil {
		return nil, false, nil
	}
	switch carried.Init.(type) {
	case IntV, NumV:
	default:
		return nil, false, nil
	}
	init, err := t.valueTermAt(carried.Init, name, delays, token.NoPos)
	if err != nil {
		return nil, true, err
	}
	t.acc[carried.Self] = true
	body, err := t.exprTerm(x.Fr, x.Def, delays)
	delete(t.acc, carried.Self)
	if err != nil {
		return nil, true, err
	}
	return sym.Call{Fn: "scan", Args: []sym.Expr{body, init}}, true, nil
}
