package shape

import (
	"fmt"
	"go/ast"
	"go/parser"
	"go/token"
	"go/types"
	"os"
	"strings"

	"verif/checker/internal/lin"
	"verif/checker/internal/load"
)

func (it *Interp) evalCall(fr *Frame, call *ast.CallExpr) Value {
	// conversion T(x)
	if tv, ok := fr.Info.Types[call.Fun]; ok && tv.IsType() {
		if len(call.Args) != 1 {
			return Opaque{Why: "conversion"}
		}
		v := it.eval(fr, call.Args[0])
		to := tv.Type
		switch x := v.(type) {
		case IntV:
			if b, ok := to.Underlying().(*types.Basic); ok && b.Info()&types.IsInteger != 0 {
				return x
			}
			return NumV{From: "T(" + x.E.String() + ")", Sym: LinToSym(x.E)}
		case NumV:
			if b, ok := to.Underlying().(*types.Basic); ok && b.Info()&types.IsInteger != 0 {
				return it.opaqueInt("int(" + showVal(x) + ")")
			}
			return x
		}
		return v
	}
	// builtins
	if id, ok := call.Fun.(*ast.Ident); ok {
		if _, isB := fr.Info.Uses[id].(*types.Builtin); isB {
			return it.evalBuiltin(fr, id.Name, call)
		}
	}
	fv := it.eval(fr, call.Fun)
	switch f := fv.(type) {
	case *Closure:
		args := it.evalArgs(fr, call)
		return it.callClosure(fr, f, args, call)
	case *FuncRef:
		return it.callFunc(fr, f, call)
	}
	// unknown callee: evaluate arguments for their effects on linearity
	for _, a := range call.Args {
		v := it.eval(fr, a)
		if s, ok := v.(*Stream); ok {
			it.undecided(call.Pos(), "stream "+s.String()+" passed to an unknown function "+calleeDisplay(call.Fun))
		}
	}
	return Opaque{Why: "call of " + calleeDisplay(call.Fun)}
}

func (it *Interp) evalArgs(fr *Frame, call *ast.CallExpr) []Value {
	args := make([]Value, 0, len(call.Args))
	for _, a := range call.Args {
		args = append(args, it.eval(fr, a))
	}
	return args
}

func (it *Interp) evalBuiltin(fr *Frame, name string, call *ast.CallExpr) Value {
	switch name {
	case "len":
		v := it.eval(fr, call.Args[0])
		if sl, ok := v.(*Slice); ok {
			if sl.Homog {
				return IntV{E: sl.Len}
			}
			return IntV{E: lin.C(int64(len(sl.Elems)))}
		}
		if _, ok := v.(*Stream); ok {
			it.undecided(call.Pos(), "len() of a channel makes the stage schedule-dependent")
		}
		return it.opaqueInt(fmt.Sprintf("len#%d", call.Pos()))
	case "cap":
		v := it.eval(fr, call.Args[0])
		if s, ok := v.(*Stream); ok {
			if s.Cap != nil {
				return IntV{E: s.Cap}
			}
			return IntV{E: lin.C(0)}
		}
		return it.opaqueInt(fmt.Sprintf("cap#%d", call.Pos()))
	case "make":
		t := fr.Info.TypeOf(call.Args[0])
		if t == nil {
			return Opaque{Why: "make"}
		}
		switch u := t.Underlying().(type) {
		case *types.Chan:
			s := it.newStream("chan", call.Pos(), u.Elem(), fr)
			if len(call.Args) > 1 {
				cv := it.eval(fr, call.Args[1])
				if iv, ok := cv.(IntV); ok {
					s.Cap = iv.E
				} else {
					it.undecided(call.Pos(), "channel capacity is not an integer expression")
				}
			}
			return s
		case *types.Slice:
			if len(call.Args) < 2 {
				return &Slice{}
			}
			nv := it.eval(fr, call.Args[1])
			iv, ok := nv.(IntV)
			if !ok {
				return &Slice{Homog: true, Rep: &Cell{V: Opaque{Why: "elem"}}, Len: it.opaqueInt("len?").E}
			}
			if iv.E.IsLin() && iv.E.T.IsConst() {
				n := int(iv.E.T.C)
				if n > 64 {
					n = 64
				}
				sl := &Slice{Len: iv.E}
				for i := 0; i < n; i++ {
					sl.Elems = append(sl.Elems, &Cell{V: it.zeroValue(u.Elem(), "elem")})
				}
				return sl
			}
			return &Slice{Homog: true, Rep: &Cell{V: it.zeroValue(u.Elem(), "elem")}, Len: iv.E}
		}
		return Opaque{Why: "make " + t.String()}
	case "append":
		base := it.eval(fr, call.Args[0])
		sl, ok := base.(*Slice)
		if !ok {
			return Opaque{Why: "append"}
		}
		if call.Ellipsis.IsValid() {
			// append(xs, ys...) with both slices of known elements
			if more, ok := it.eval(fr, call.Args[len(call.Args)-1]).(*Slice); ok && !more.Homog && !sl.Homog && len(call.Args) == 2 {
				ns := &Slice{Elems: append(append([]*Cell{}, sl.Elems...), more.Elems...)}
				ns.Len = lin.C(int64(len(ns.Elems)))
				return ns
			}
			return Opaque{Why: "append..."}
		}
		if sl.Homog {
			for _, a := range call.Args[1:] {
				sl.Rep.V = it.eval(fr, a)
			}
			return sl
		}
		ns := &Slice{Elems: append([]*Cell{}, sl.Elems...)}
		for _, a := range call.Args[1:] {
			ns.Elems = append(ns.Elems, &Cell{V: it.eval(fr, a)})
		}
		ns.Len = lin.C(int64(len(ns.Elems)))
		return ns
	case "close":
		v := it.eval(fr, call.Args[0])
		if s, ok := v.(*Stream); ok {
			if fr.Stage != nil {
				it.stageClose(fr, s, call.Pos())
			} else {
				it.undecided(call.Pos(), "close outside a goroutine stage")
			}
		}
		return nil
	case "panic", "print", "println", "delete", "copy":
		return nil
	case "min", "max":
		var acc *lin.Expr
		for _, a := range call.Args {
			iv, ok := it.eval(fr, a).(IntV)
			if !ok {
				return NumV{From: name}
			}
			if acc == nil {
				acc = iv.E
			} else if name == "min" {
				acc = lin.Min(acc, iv.E)
			} else {
				acc = lin.Max(acc, iv.E)
			}
		}
		return IntV{E: acc}
	}
	return Opaque{Why: "builtin " + name}
}

// stdCall models the few standard-library functions that matter for shapes.
func (it *Interp) stdCall(fr *Frame, fn *types.Func, call *ast.CallExpr, recv Value) Value {
	full := fn.FullName()
	switch full {
	case "slices.Max", "slices.Min":
		if len(call.Args) == 1 {
			v := it.eval(fr, call.Args[0])
			if sl, ok := v.(*Slice); ok && !sl.Homog && len(sl.Elems) > 0 {
				var acc *lin.Expr
				for _, c := range sl.Elems {
					iv, ok := c.V.(IntV)
					if !ok {
						return it.opaqueInt(fmt.Sprintf("%s#%d", full, call.Pos()))
					}
					if acc == nil {
						acc = iv.E
					} else if full == "slices.Max" {
						acc = lin.Max(acc, iv.E)
					} else {
						acc = lin.Min(acc, iv.E)
					}
				}
				return IntV{E: acc}
			}
		}
		return it.opaqueInt(fmt.Sprintf("%s#%d", full, call.Pos()))
	}
	args := it.evalArgs(fr, call)
	for _, a := range args {
		if s, ok := a.(*Stream); ok {
			it.undecided(call.Pos(), "stream "+s.String()+" passed to "+full)
		}
	}
	if o, ok := recv.(*Object); ok && o.Ring != nil {
		_ = o
	}
	sig := fn.Type().(*types.Signature)
	if sig.Results().Len() == 1 {
		rt := sig.Results().At(0).Type()
		if b, ok := rt.Underlying().(*types.Basic); ok {
			if b.Info()&types.IsInteger != 0 {
				return it.opaqueInt(fmt.Sprintf("%s#%d", full, call.Pos()))
			}
			if b.Info()&types.IsNumeric != 0 {
				return NumV{From: full}
			}
		}
	}
	return Opaque{Why: "std " + full}
}

// callFunc applies a declared function or method.
func (it *Interp) callFunc(fr *Frame, f *FuncRef, call *ast.CallExpr) Value {
	fn := f.Fn
	if fn == nil {
		return Opaque{Why: "nil func"}
	}
	recv := f.Recv
	// dynamic dispatch on an abstract object
	if o, ok := recv.(*Object); ok {
		if o.Ring != nil || isRingOrBst(o) {
			return it.callDataStruct(fr, o, fn.Name(), call)
		}
		if o.Iface {
			args := it.evalArgs(fr, call)
			return it.callIface(fr, o, fn, args, call)
		}
		if m := it.lookupMethod(o, fn.Name()); m != nil {
			fn = m
		}
	}
	fi := it.Prog.Info(fn)
	if fi == nil {
		if fn.Pkg() != nil && strings.HasPrefix(fn.Pkg().Path(), load.ModulePath) {
			// interface method of the module without a concrete receiver
			args := it.evalArgs(fr, call)
			if o, ok := recv.(*Object); ok {
				return it.callIface(fr, o, fn, args, call)
			}
			return Opaque{Why: "abstract method " + fn.Name()}
		}
		return it.stdCall(fr, fn, call, recv)
	}
	args := it.evalArgs(fr, call)
	return it.inline(fr, fi, recv, args, call)
}

func isRingOrBst(o *Object) bool {
	n := o.TypeName()
	return n == "helper.Ring" || n == "helper.Bst"
}

func (it *Interp) lookupMethod(o *Object, name string) *types.Func {
	if o.Type == nil {
		return nil
	}
	t := o.Type
	var pkg *types.Package
	tt := t
	if p, ok := tt.(*types.Pointer); ok {
		tt = p.Elem()
	}
	if n, ok := tt.(*types.Named); ok {
		pkg = n.Obj().Pkg()
	}
	if _, ok := t.(*types.Pointer); !ok {
		t = types.NewPointer(t)
	}
	obj, _, _ := types.LookupFieldOrMethod(t, true, pkg, name)
	fn, _ := obj.(*types.Func)
	return fn
}

func (it *Interp) hasMethod(o *Object, name string) bool {
	return it.lookupMethod(o, name) != nil
}

// inline interprets the body of a declared function with the given arguments.
func (it *Interp) inline(fr *Frame, fi *load.FuncInfo, recv Value, args []Value, call *ast.CallExpr) Value {
	if fi.Decl.Body == nil {
		return Opaque{Why: "no body"}
	}
	if it.callDepth > 40 {
		it.undecided(call.Pos(), "call depth exceeded (recursion?) at "+load.FuncName(fi.Fn))
		return Opaque{Why: "depth"}
	}
	name := load.FuncName(fi.Fn)
	// constructors of the two helper data structures are modelled, not interpreted
	switch name {
	case "helper.NewRing":
		o := &Object{Type: resultNamed(fi.Fn), Path: "<ring@" + it.Prog.Pos(call.Pos()) + ">", Fields: map[string]*Cell{}}
		sz := lin.C(1)
		if len(args) > 0 {
			if iv, ok := args[0].(IntV); ok {
				sz = iv.E
			}
		}
		o.Ring = &RingState{Size: sz, Puts: lin.C(0), Gets: lin.C(0), Valid: true}
		return o
	case "helper.NewBst":
		return &Object{Type: resultNamed(fi.Fn), Path: "<bst@" + it.Prog.Pos(call.Pos()) + ">", Fields: map[string]*Cell{}}
	}
	sig := fi.Fn.Type().(*types.Signature)
	nf := &Frame{Fn: fi.Fn, FnName: name, Info: fi.Pkg.TypesInfo, PkgPath: fi.Pkg.PkgPath, Env: NewEnv(nil), Recv: recv, Parent: fr, Call: call, Depth: fr.Depth + 1, Stage: fr.Stage, Decl: fi.Decl}
	if fi.Decl.Recv != nil && len(fi.Decl.Recv.List) > 0 && len(fi.Decl.Recv.List[0].Names) > 0 {
		if obj := fi.Pkg.TypesInfo.Defs[fi.Decl.Recv.List[0].Names[0]]; obj != nil {
			nf.Env.Define(obj, recv)
		}
	}
	np := sig.Params().Len()
	for i := 0; i < np; i++ {
		p := sig.Params().At(i)
		var v Value
		if sig.Variadic() && i == np-1 {
			if call.Ellipsis.IsValid() && i < len(args) {
				v = args[i]
			} else {
				sl := &Slice{}
				for _, a := range args[min(i, len(args)):] {
					sl.Elems = append(sl.Elems, &Cell{V: a})
				}
				sl.Len = lin.C(int64(len(sl.Elems)))
				v = sl
			}
		} else if i < len(args) {
			v = args[i]
		} else {
			v = Opaque{Why: "missing arg"}
		}
		nf.Env.Define(p, v)
	}
	// named results
	for i := 0; i < sig.Results().Len(); i++ {
		r := sig.Results().At(i)
		if r.Name() != "" && r.Name() != "_" {
			nf.Env.Define(r, it.zeroValue(r.Type(), r.Name()))
		}
	}
	if name == "helper.Drain" && fr.Stage != nil {
		it.state(fr.Stage).drains++
	}
	it.callDepth++
	c := it.execBlock(nf, fi.Decl.Body.List)
	it.callDepth--
	for i := len(nf.Defers) - 1; i >= 0; i-- {
		nf.Defers[i]()
	}
	if c == ctlAbort {
		return it.opaqueResult(fi, recv, sig, call)
	}
	ret := nf.Ret
	// outputs of a nested indicator Compute are tagged so that value analyses can stop at the indicator boundary
	if fi.Fn.Name() == "Compute" && isIndicatorPkg(fi.Pkg.PkgPath) {
		if o, ok := recv.(*Object); ok {
			var ins, outs []*Stream
			for _, a := range args {
				collectStreams(a, &ins)
			}
			collectStreams(ret, &outs)
			for i, s := range outs {
				if s.Param == "" {
					// the outermost call wins: seen from the caller the stream is this indicator's output
					s.Ind = &IndCall{Obj: o, OutIdx: i, Args: ins, Pos: call.Pos()}
				}
			}
		}
	}
	// contract override
	if it.Mode == ModeContracts && fi.Fn.Name() == "Compute" && isIndicatorPkg(fi.Pkg.PkgPath) {
		if o, ok := recv.(*Object); ok && it.hasMethod(o, "IdlePeriod") {
			it.applyContract(fr, o, args, ret, call)
			if it.res != nil {
				it.res.ContractsUsed[o.TypeName()] = true
			}
		}
	}
	return ret
}

// isIndicatorPkg: the warm-up contract (n - IdlePeriod values anchored at IdlePeriod) is that of
// the four indicator packages; strategies that happen to declare an IdlePeriod emit n actions.
func isIndicatorPkg(path string) bool {
	rel := load.RelPkg(path)
	return rel == "trend" || rel == "momentum" || rel == "volatility" || rel == "volume"
}

func resultNamed(fn *types.Func) types.Type {
	sig := fn.Type().(*types.Signature)
	if sig.Results().Len() == 0 {
		return nil
	}
	return sig.Results().At(0).Type()
}

// opaqueResult gives an aborted pure function symbolic results.
func (it *Interp) opaqueResult(fi *load.FuncInfo, recv Value, sig *types.Signature, call *ast.CallExpr) Value {
	prefix := ""
	if o, ok := recv.(*Object); ok {
		prefix = o.Path
	}
	mk := func(i int, t types.Type) Value {
		if b, ok := t.Underlying().(*types.Basic); ok && b.Info()&types.IsInteger != 0 {
			return IntV{E: it.Sym(joinPath(prefix, fmt.Sprintf("%s()#%d", fi.Fn.Name(), i)))}
		}
		if _, ok := t.Underlying().(*types.Chan); ok {
			it.undecided(call.Pos(), "function "+load.FuncName(fi.Fn)+" returning a channel could not be interpreted")
		}
		if b, ok := t.Underlying().(*types.Basic); ok && b.Info()&types.IsNumeric != 0 {
			return NumV{From: fi.Fn.Name()}
		}
		return Opaque{Why: "result of " + fi.Fn.Name()}
	}
	switch sig.Results().Len() {
	case 0:
		return nil
	case 1:
		return mk(0, sig.Results().At(0).Type())
	}
	var t Tuple
	for i := 0; i < sig.Results().Len(); i++ {
		t = append(t, mk(i, sig.Results().At(i).Type()))
	}
	return t
}

func (it *Interp) callClosure(fr *Frame, c *Closure, args []Value, call *ast.CallExpr) Value {
	nf := &Frame{Fn: c.Frame.Fn, FnName: c.Frame.FnName, Info: c.Frame.Info, PkgPath: c.Frame.PkgPath, Env: NewEnv(c.Env), Recv: c.Frame.Recv, Parent: fr, Call: call, Depth: fr.Depth + 1, Stage: fr.Stage}
	i := 0
	if c.Lit.Type.Params != nil {
		for _, f := range c.Lit.Type.Params.List {
			for _, nm := range f.Names {
				if obj := c.Frame.Info.Defs[nm]; obj != nil {
					var v Value = Opaque{Why: "closure arg"}
					if i < len(args) {
						v = args[i]
					}
					nf.Env.Define(obj, v)
				}
				i++
			}
		}
	}
	it.callDepth++
	ct := it.execBlock(nf, c.Lit.Body.List)
	it.callDepth--
	for k := len(nf.Defers) - 1; k >= 0; k-- {
		nf.Defers[k]()
	}
	if ct == ctlAbort {
		return Opaque{Why: "closure result"}
	}
	return nf.Ret
}

// callDataStruct models helper.Ring / helper.Bst methods.
func (it *Interp) callDataStruct(fr *Frame, o *Object, name string, call *ast.CallExpr) Value {
	it.evalArgs(fr, call)
	if o.Ring != nil {
		switch name {
		case "Put":
			o.Ring.Puts = lin.AddC(o.Ring.Puts, 1)
			return NumV{From: "ring.Put"}
		case "Get":
			o.Ring.Gets = lin.AddC(o.Ring.Gets, 1)
			return Tuple{NumV{From: "ring.Get"}, BoolV{}}
		case "IsFull", "IsEmpty":
			return BoolV{}
		case "At":
			return NumV{From: "ring.At"}
		}
	}
	switch name {
	case "Insert", "Remove":
		return BoolV{}
	case "Contains":
		return BoolV{}
	}
	return NumV{From: "ds." + name}
}

// ---------------------------------------------------------------------------
// Contracts.

func collectStreams(v Value, into *[]*Stream) {
	switch x := v.(type) {
	case *Stream:
		*into = append(*into, x)
	case Tuple:
		for _, e := range x {
			collectStreams(e, into)
		}
	case *Slice:
		if x.Homog && x.Rep != nil {
			collectStreams(x.Rep.V, into)
		}
		for _, c := range x.Elems {
			collectStreams(c.V, into)
		}
	}
}

// IdleOf evaluates o.IdlePeriod() symbolically.
func (it *Interp) IdleOf(fr *Frame, o *Object) (*lin.Expr, bool) {
	if o.Iface {
		return it.Sym(joinPath(o.Path, "IdlePeriod()")), true
	}
	m := it.lookupMethod(o, "IdlePeriod")
	if m == nil {
		return nil, false
	}
	fi := it.Prog.Info(m)
	if fi == nil {
		return it.Sym(joinPath(o.Path, "IdlePeriod()")), true
	}
	v := it.inline(fr, fi, o, nil, &ast.CallExpr{Fun: &ast.Ident{Name: "IdlePeriod"}})
	if iv, ok := v.(IntV); ok {
		return iv.E, true
	}
	return nil, false
}

func (it *Interp) applyContract(fr *Frame, o *Object, args []Value, ret Value, call *ast.CallExpr) {
	idle, ok := it.IdleOf(fr, o)
	if !ok {
		return
	}
	var ins, outs []*Stream
	for _, a := range args {
		collectStreams(a, &ins)
	}
	collectStreams(ret, &outs)
	if len(ins) == 0 || len(outs) == 0 {
		return
	}
	var lenIn, leadIn *lin.Expr
	for _, s := range ins {
		if s.Len == nil || s.Lead == nil {
			return
		}
		if lenIn == nil {
			lenIn, leadIn = s.Len, s.Lead
		} else {
			lenIn = lin.Min(lenIn, s.Len)
			leadIn = lin.Max(leadIn, s.Lead)
		}
	}
	for _, s := range outs {
		s.Len = lin.Simplify(it.G, lin.Pos(lin.Sub(lenIn, idle)))
		s.Lead = lin.Simplify(it.G, lin.Add(leadIn, idle))
		s.FillN = nil
		s.Taint = nil
		s.Unknown = false
	}
}

// callIface synthesises a stage for a method call on an interface-typed object.
func (it *Interp) callIface(fr *Frame, o *Object, fn *types.Func, args []Value, call *ast.CallExpr) Value {
	sig := fn.Type().(*types.Signature)
	switch fn.Name() {
	case "IdlePeriod":
		return IntV{E: it.Sym(joinPath(o.Path, "IdlePeriod()"))}
	}
	var ins []*Stream
	for _, a := range args {
		collectStreams(a, &ins)
	}
	nres := sig.Results().Len()
	hasChan := false
	for i := 0; i < nres; i++ {
		if _, ok := sig.Results().At(i).Type().Underlying().(*types.Chan); ok {
			hasChan = true
		}
	}
	if !hasChan {
		for _, s := range ins {
			it.undecided(call.Pos(), "stream "+s.String()+" passed to interface method "+fn.Name()+" that returns no channel")
		}
		if nres == 1 {
			if b, ok := sig.Results().At(0).Type().Underlying().(*types.Basic); ok && b.Info()&types.IsInteger != 0 {
				return IntV{E: it.Sym(joinPath(o.Path, fn.Name()+"()"))}
			}
		}
		return Opaque{Why: "iface " + fn.Name()}
	}
	st := it.newStage("iface", fr, call.Pos())
	st.FnName = o.TypeName() + "." + fn.Name()
	var lenIn, leadIn *lin.Expr
	for i, s := range ins {
		st.Ins = append(st.Ins, &StageIn{S: s, LeadAt: s.Lead, Checked: true, Consumed: s.Len, Drained: true, InLoop: true, Order: i})
		s.Readers = append(s.Readers, &Read{Stage: st, Drained: true, Pos: call.Pos(), Kind: "iface", Consumed: s.Len})
		if s.Len == nil || s.Lead == nil {
			continue
		}
		if lenIn == nil {
			lenIn, leadIn = s.Len, s.Lead
		} else {
			lenIn = lin.Min(lenIn, s.Len)
			leadIn = lin.Max(leadIn, s.Lead)
		}
	}
	if lenIn == nil {
		lenIn, leadIn = lin.C(0), lin.C(0)
	}
	isStrategy := fn.Name() == "Compute" && !it.hasIfaceMethod(o, "IdlePeriod")
	var outs Tuple
	for i := 0; i < nres; i++ {
		ct, ok := sig.Results().At(i).Type().Underlying().(*types.Chan)
		if !ok {
			outs = append(outs, Opaque{Why: "iface result"})
			continue
		}
		s := it.newStream(fmt.Sprintf("%s.%s#%d", o.Path, fn.Name(), i), call.Pos(), ct.Elem(), fr)
		s.Pending = false
		s.Producer = st
		s.Closed = true
		s.Cap = lin.C(0)
		if isStrategy {
			w := it.Sym(joinPath(o.Path, "warmup"))
			s.Len = lin.Max(lenIn, w)
			s.Lead = leadIn
			s.FillN = w
			s.FillK = FillHold
			s.Taint = w
		} else {
			idle := it.Sym(joinPath(o.Path, "IdlePeriod()"))
			s.Len = lin.Simplify(it.G, lin.Pos(lin.Sub(lenIn, idle)))
			s.Lead = lin.Add(leadIn, idle)
		}
		it.inheritPaths(s, st, ins)
		if fn.Name() == "Compute" {
			s.Ind = &IndCall{Obj: o, OutIdx: i, Args: ins, Pos: call.Pos()}
		}
		st.Outs = append(st.Outs, s)
		outs = append(outs, s)
	}
	if len(outs) == 1 {
		return outs[0]
	}
	return outs
}

func (it *Interp) hasIfaceMethod(o *Object, name string) bool {
	t := o.Type
	if p, ok := t.(*types.Pointer); ok {
		t = p.Elem()
	}
	iface, ok := t.Underlying().(*types.Interface)
	if !ok {
		return false
	}
	for i := 0; i < iface.NumMethods(); i++ {
		if iface.Method(i).Name() == name {
			return true
		}
	}
	return false
}

// inheritPaths gives an output stream the fork ancestry of the stage's inputs.
func (it *Interp) inheritPaths(out *Stream, st *Stage, ins []*Stream) {
	for _, in := range ins {
		for fid, p := range in.Paths {
			np := &PathInfo{Cap: lin.Add(p.Cap, out.Cap), Stages: p.Stages + 1, Lead0: p.Lead0, Idx: p.Idx}
			if old, ok := out.Paths[fid]; ok {
				// keep the roomier path (upper bound of the available slack)
				if lin.ProveGE(it.G, lin.AddC(old.Cap, int64(old.Stages)), lin.AddC(np.Cap, int64(np.Stages))) {
					continue
				}
			}
			out.Paths[fid] = np
		}
	}
}

// ---------------------------------------------------------------------------
// go statements.

func (it *Interp) execGo(fr *Frame, g *ast.GoStmt) {
	call := g.Call
	switch f := call.Fun.(type) {
	case *ast.FuncLit:
		st := it.newStage("go-lit", fr, g.Pos())
		nf := &Frame{Fn: fr.Fn, FnName: fr.FnName, Info: fr.Info, PkgPath: fr.PkgPath, Env: NewEnv(fr.Env), Recv: fr.Recv, Parent: fr, Depth: fr.Depth, Stage: st, Decl: nil}
		st.Frame = nf
		it.runStage(nf, st, f.Body.List)
		return
	}
	fv := it.eval(fr, call.Fun)
	ref, ok := fv.(*FuncRef)
	if !ok {
		it.undecided(g.Pos(), "go statement with an unresolved callee")
		return
	}
	fi := it.Prog.Info(ref.Fn)
	if fi == nil || fi.Decl.Body == nil {
		it.undecided(g.Pos(), "go statement calling a function without source: "+ref.Fn.FullName())
		return
	}
	args := it.evalArgs(fr, call)
	// the stage's construct is the go statement's call in the current owner
	nf := &Frame{Fn: fi.Fn, FnName: load.FuncName(fi.Fn), Info: fi.Pkg.TypesInfo, PkgPath: fi.Pkg.PkgPath, Env: NewEnv(nil), Recv: ref.Recv, Parent: fr, Call: call, Depth: fr.Depth + 1, Decl: fi.Decl}
	st := it.newStage("go-call", nf, g.Pos())
	st.FnName = nf.FnName
	nf.Stage = st
	st.Frame = nf
	if fi.Decl.Recv != nil && len(fi.Decl.Recv.List) > 0 && len(fi.Decl.Recv.List[0].Names) > 0 {
		if obj := fi.Pkg.TypesInfo.Defs[fi.Decl.Recv.List[0].Names[0]]; obj != nil {
			nf.Env.Define(obj, ref.Recv)
		}
	}
	sig := fi.Fn.Type().(*types.Signature)
	for i := 0; i < sig.Params().Len(); i++ {
		var v Value = Opaque{Why: "missing arg"}
		if i < len(args) {
			v = args[i]
		}
		nf.Env.Define(sig.Params().At(i), v)
	}
	it.runStage(nf, st, fi.Decl.Body.List)
}

// ---------------------------------------------------------------------------
// Type-specific admissibility (documented orderings and constructor equalities).

type gammaEntry struct {
	Type string // package-qualified type name as printed by Object.TypeName
	Rel  string // relation over r.<path> terms
	Why  string
}

// GammaTable is the admissibility table Γ (frozen; one reason per line). Each
// relation is evaluated on every symbolic object of the type.
var GammaTable = []gammaEntry{
	{"trend.Macd", "r.Ema1.Period <= r.Ema2.Period", "MACD: fast EMA period <= slow EMA period (documented 12/26)"},
	{"trend.Apo", "r.FastPeriod <= r.SlowPeriod", "APO: fast <= slow"},
	{"trend.Hma", "r.wma1.Period <= r.wma2.Period", "HMA constructor: wma1 = round(period/2) <= wma2 = period"},
	{"trend.Kdj", "r.MovingMax.Period == r.MovingMin.Period", "KDJ constructor sets both to the same r-period"},
	{"momentum.AwesomeOscillator", "r.ShortSma.Period <= r.LongSma.Period", "AO: short <= long"},
	{"momentum.ChaikinOscillator", "r.ShortEma.Period <= r.LongEma.Period", "Chaikin: short <= long"},
	{"momentum.Ppo", "r.ShortEma.Period <= r.LongEma.Period", "PPO: short <= long"},
	{"momentum.Pvo", "r.ShortEma.Period <= r.LongEma.Period", "PVO: short <= long"},
	{"momentum.IchimokuCloud", "r.ConversionMax.Period == r.ConversionMin.Period", "constructor: same period for max and min"},
	{"momentum.IchimokuCloud", "r.BaseMax.Period == r.BaseMin.Period", "constructor: same period for max and min"},
	{"momentum.IchimokuCloud", "r.LeadingMax.Period == r.LeadingMin.Period", "constructor: same period for max and min"},
	{"momentum.IchimokuCloud", "r.ConversionMax.Period <= r.BaseMax.Period", "conversion (9) <= base (26)"},
	{"momentum.IchimokuCloud", "r.BaseMax.Period <= r.LeadingMax.Period", "base (26) <= leading (52)"},
	{"momentum.StochasticOscillator", "r.Max.Period == r.Min.Period", "constructor: one max/min period"},
	{"momentum.StochasticRsi", "r.Max.Period == r.Min.Period", "constructor: one period"},
	{"momentum.WilliamsR", "r.Max.Period == r.Min.Period", "constructor: one period"},
	{"volatility.DonchianChannel", "r.Max.Period == r.Min.Period", "constructor: one period"},
	{"volatility.Po", "r.max.Period == r.min.Period", "constructor: one period"},
	{"volatility.KeltnerChannel", "r.Atr.IdlePeriod() >= r.Ema.IdlePeriod()", "constructor: ATR(period) idles one longer than EMA(period)"},
	{"momentum.TripleRsiStrategy", "r.Sma.IdlePeriod() >= r.Rsi.IdlePeriod()", "Triple RSI: the 200-day SMA outlasts the RSI warm-up"},
	{"trend.TrimaStrategy", "r.Long.IdlePeriod() >= r.Short.IdlePeriod()", "TRIMA strategy: long >= short"},
	{"trend.DemaStrategy", "r.Dema1.IdlePeriod() <= r.Dema2.IdlePeriod()", "DEMA strategy: fast DEMA first"},
	{"trend.GoldenCrossStrategy", "r.FastEma.Period <= r.SlowEma.Period", "golden cross: fast <= slow"},
	{"trend.TripleMovingAverageCrossoverStrategy", "r.FastEma.Period <= r.MediumEma.Period", "fast <= medium"},
	{"trend.TripleMovingAverageCrossoverStrategy", "r.MediumEma.Period <= r.SlowEma.Period", "medium <= slow"},
	{"trend.VwmaStrategy", "r.Sma.Period == r.Vwma.Period", "constructor: one period for both averages"},
	{"trend.TsiStrategy", "r.Signal.Period >= 1", "signal EMA period"},
}

// debugSkipGamma (developer aid, VERIF_SKIP_GAMMA="Type|Rel"): analyse without one Γ entry to see
// which rules really need it.
var debugSkipGamma = os.Getenv("VERIF_SKIP_GAMMA")

func (it *Interp) applyTypeGamma(o *Object) {
	tn := o.TypeName()
	for _, g := range GammaTable {
		if g.Type != tn {
			continue
		}
		if it.SkipGamma[g.Type] || it.SkipGamma[g.Type+"|"+g.Rel] || debugSkipGamma == g.Type+"|"+g.Rel {
			continue
		}
		e, err := parser.ParseExpr(g.Rel)
		if err != nil {
			panic("bad Γ entry: " + g.Rel)
		}
		be, ok := e.(*ast.BinaryExpr)
		if !ok {
			panic("bad Γ entry: " + g.Rel)
		}
		l, ok1 := it.gammaTerm(o, be.X)
		r, ok2 := it.gammaTerm(o, be.Y)
		if !ok1 || !ok2 {
			it.res.Notes = append(it.res.Notes, "Γ entry not applicable (field missing): "+g.Type+": "+g.Rel)
			continue
		}
		d := lin.Sub(r, l) // r - l
		if !d.IsLin() {
			it.res.Notes = append(it.res.Notes, "Γ entry not linear: "+g.Rel)
			continue
		}
		switch be.Op {
		case token.LEQ:
			it.G.Cs = append(it.G.Cs, d.T)
		case token.GEQ:
			it.G.Cs = append(it.G.Cs, d.T.Neg())
		case token.EQL:
			it.G.Cs = append(it.G.Cs, d.T, d.T.Neg())
		default:
			panic("bad Γ relation: " + g.Rel)
		}
		it.res.Notes = append(it.res.Notes, "Γ["+joinPath(o.Path, "")+tn+"]: "+g.Rel+" — "+g.Why)
	}
}

func (it *Interp) gammaTerm(o *Object, e ast.Expr) (*lin.Expr, bool) {
	switch x := e.(type) {
	case *ast.BasicLit:
		var n int64
		fmt.Sscan(x.Value, &n)
		return lin.C(n), true
	case *ast.BinaryExpr:
		l, ok1 := it.gammaTerm(o, x.X)
		r, ok2 := it.gammaTerm(o, x.Y)
		if !ok1 || !ok2 {
			return nil, false
		}
		if x.Op == token.ADD {
			return lin.Add(l, r), true
		}
		return lin.Sub(l, r), true
	case *ast.CallExpr:
		sel, ok := x.Fun.(*ast.SelectorExpr)
		if !ok || sel.Sel.Name != "IdlePeriod" {
			return nil, false
		}
		v, ok := it.gammaPath(o, sel.X)
		if !ok {
			return nil, false
		}
		obj, ok := v.(*Object)
		if !ok {
			return nil, false
		}
		fr := &Frame{Fn: nil, FnName: "Γ", Env: NewEnv(nil), Info: &types.Info{}}
		return it.IdleOf(fr, obj)
	default:
		v, ok := it.gammaPath(o, e)
		if !ok {
			return nil, false
		}
		if iv, ok := v.(IntV); ok {
			return iv.E, true
		}
		return nil, false
	}
}

func (it *Interp) gammaPath(o *Object, e ast.Expr) (Value, bool) {
	switch x := e.(type) {
	case *ast.Ident:
		if x.Name == "r" {
			return o, true
		}
		return nil, false
	case *ast.SelectorExpr:
		b, ok := it.gammaPath(o, x.X)
		if !ok {
			return nil, false
		}
		bo, ok := b.(*Object)
		if !ok {
			return nil, false
		}
		name := x.Sel.Name
		ft := fieldType(bo.Type, name)
		if ft == nil {
			// an unexported field may have been renamed: resolve by the type of the field
			if alt := FieldAlias(bo.Type, name); alt != "" {
				name = alt
				ft = fieldType(bo.Type, name)
			}
		}
		if ft == nil {
			return nil, false
		}
		return it.getField(bo, name, ft), true
	}
	return nil, false
}

// fieldInitialisers: how the constructors initialise the unexported sub-indicator fields the
// frozen tables (Γ, formula specifications) refer to - the identity of such a field is what it
// is initialised with, not what it is called or where it stands in the struct.
var fieldInitialisers = map[string]map[string]string{
	"trend.Hma": {
		"wma1": "NewWmaWith[T](int(math.Round(float64(period) / 2)))",
		"wma2": "NewWmaWith[T](period)",
		"wma3": "NewWmaWith[T](int(math.Round(math.Sqrt(float64(period)))))",
	},
	"volatility.Po": {
		"mls": "trend.NewMlsWithPeriod[T](period)",
		"min": "trend.NewMovingMinWithPeriod[T](period)",
		"max": "trend.NewMovingMaxWithPeriod[T](period)",
	},
}

// AliasProgram is the program whose constructors FieldAlias inspects (set by NewInterp).
var AliasProgram *load.Program

// FieldAlias resolves the name a frozen table uses for an UNEXPORTED field against the struct as
// it is now: the field of that type which a keyed composite literal in the type's package
// initialises with the recorded expression. Exported fields are API and are matched by name only.
func FieldAlias(t types.Type, name string) string {
	if name == "" || name[0] < 'a' || name[0] > 'z' || t == nil || AliasProgram == nil {
		return ""
	}
	if p, ok := t.(*types.Pointer); ok {
		t = p.Elem()
	}
	nt, ok := t.(*types.Named)
	if !ok || nt.Obj().Pkg() == nil {
		return ""
	}
	rel := load.RelPkg(nt.Obj().Pkg().Path())
	want, ok := fieldInitialisers[rel+"."+nt.Obj().Name()][name]
	if !ok {
		return ""
	}
	pk := AliasProgram.Pkg(rel)
	if pk == nil {
		return ""
	}
	found := ""
	for _, f := range pk.Syntax {
		ast.Inspect(f, func(n ast.Node) bool {
			cl, ok := n.(*ast.CompositeLit)
			if !ok {
				return true
			}
			ct := pk.TypesInfo.TypeOf(cl)
			if ct == nil {
				return true
			}
			if p, ok := ct.(*types.Pointer); ok {
				ct = p.Elem()
			}
			cn, ok := ct.(*types.Named)
			if !ok || cn.Origin().Obj() != nt.Origin().Obj() {
				return true
			}
			for _, el := range cl.Elts {
				if kv, ok := el.(*ast.KeyValueExpr); ok {
					if k, ok := kv.Key.(*ast.Ident); ok && types.ExprString(kv.Value) == want {
						found = k.Name
					}
				}
			}
			return true
		})
	}
	return found
}

func fieldType(t types.Type, name string) types.Type {
	if t == nil {
		return nil
	}
	if p, ok := t.(*types.Pointer); ok {
		t = p.Elem()
	}
	st, ok := t.Underlying().(*types.Struct)
	if !ok {
		return nil
	}
	for i := 0; i < st.NumFields(); i++ {
		if st.Field(i).Name() == name {
			return st.Field(i).Type()
		}
	}
	return nil
}

// GammaRelation decides whether the relation rel (over r.<path> terms, as in GammaTable) holds
// for the object o under the constraints g, for all values of the symbols.
func (it *Interp) GammaRelation(g *lin.Ctx, o *Object, rel string) (holds bool, applicable bool) {
	e, err := parser.ParseExpr(rel)
	if err != nil {
		return false, false
	}
	be, ok := e.(*ast.BinaryExpr)
	if !ok {
		return false, false
	}
	saved := it.G
	it.G = g
	defer func() { it.G = saved }()
	l, ok1 := it.gammaTerm(o, be.X)
	r, ok2 := it.gammaTerm(o, be.Y)
	if !ok1 || !ok2 {
		return false, false
	}
	// opaque arithmetic (period/2, sqrt(period)) is outside the linear theory: not decided here
	syms := map[lin.Sym]bool{}
	l.Syms(syms)
	r.Syms(syms)
	for sy := range syms {
		if strings.Contains(string(sy), "(") {
			return false, false
		}
	}
	switch be.Op {
	case token.LEQ:
		return lin.ProveGE(g, r, l), true
	case token.GEQ:
		return lin.ProveGE(g, l, r), true
	case token.EQL:
		return lin.ProveEQ(g, l, r), true
	}
	return false, false
}
