package shape

import (
	"fmt"
	"go/ast"
	"go/constant"
	"go/token"
	"go/types"
	"strconv"
	"strings"

	"verif/checker/internal/lin"
	"verif/checker/internal/load"
	"verif/checker/internal/sym"
)

type Mode int

const (
	ModeContracts Mode = iota // callers use declared IdlePeriod contracts
	ModeInline                // everything is derived down to the primitive stages
)

type Undecided struct {
	Pos  token.Pos
	Fn   string
	Why  string
	Root bool // lies in a construct owned by the analysed root
}

type Phantom struct {
	Stage *Stage
	S     *Stream
	Pos   token.Pos
	Need  *lin.Expr // elements required
	Have  *lin.Expr // elements available
	Sent  bool      // the received value reaches a send
	Owned bool
}

// Result is the outcome of analysing one root along one decision path.
type Result struct {
	Root         *load.FuncInfo
	RootName     string
	Recv         *Object
	Params       []Value
	ParamStreams []*Stream
	Ret          Value
	Streams      []*Stream
	Stages       []*Stage
	Undecided    []Undecided
	Phantoms     []Phantom
	G            *lin.Ctx
	PathConds    []string
	Notes        []string
	Objects      []*Object
	RootFrame    *Frame
	Reports      []*Report
	N            *lin.Expr
	Idle         *lin.Expr // the receiver's IdlePeriod() (nil when the type has none or it is not evaluable)
	HasIdle      bool      // the receiver type declares IdlePeriod
	// ContractsUsed: indicator types whose Compute was summarised by the declared IdlePeriod contract
	ContractsUsed map[string]bool
}

type Interp struct {
	Prog *load.Program
	Mode Mode

	G            *lin.Ctx
	gsyms        map[lin.Sym]bool
	script       []int
	pos          int
	pending      [][]int
	res          *Result
	nStream      int
	nStage       int
	nFork        int
	nOpq         int
	ordCache     map[*ast.FuncDecl]map[*ast.CallExpr]string
	goOrd        map[*ast.FuncDecl]map[*ast.GoStmt]string
	ParamDomain  map[string]int64 // root int parameter name -> lower bound
	DistinctLens bool             // every channel parameter has its own length and capacity symbol
	SkipGamma    map[string]bool  // types whose Γ ordering assumption is not used in this analysis
	MaxPaths     int
	callDepth    int
	states       map[*Stage]*stState
}

func NewInterp(p *load.Program, m Mode) *Interp {
	AliasProgram = p
	return &Interp{Prog: p, Mode: m, ordCache: map[*ast.FuncDecl]map[*ast.CallExpr]string{}, goOrd: map[*ast.FuncDecl]map[*ast.GoStmt]string{}, MaxPaths: 96}
}

// ---------------------------------------------------------------------------
// Γ: admissibility of configuration symbols.

// domainFor is the admissibility table for symbol names (frozen; one reason per line).
func domainFor(name string) (int64, bool, string) {
	base := name
	if i := strings.LastIndex(base, "."); i >= 0 {
		base = base[i+1:]
	}
	switch {
	case name == "n" || strings.HasPrefix(name, "n."):
		return 0, true, "input length is non-negative"
	case strings.HasPrefix(name, "cap."):
		return 0, true, "a channel capacity is non-negative"
	case strings.HasSuffix(name, "IdlePeriod()"):
		return 0, true, "an idle period is a count of values"
	case strings.HasSuffix(name, ".warmup"):
		return 0, true, "a strategy's warm-up is a count of snapshots"
	case base == "LaggingPeriod":
		return 0, true, "Ichimoku lagging period shifts by a count >= 0"
	case base == "DownDays":
		return 1, true, "TripleRsi needs at least one down day (ring capacity >= 1)"
	case strings.Contains(base, "Period") && isIdent(base):
		return 1, true, "a period is a window length >= 1"
	case strings.HasPrefix(base, "len(") && strings.Contains(strings.ToLower(base), "strateg"):
		return 1, true, "compound strategies wrap k >= 1 strategies"
	case strings.HasPrefix(base, "len("):
		return 0, true, "a slice length"
	case strings.HasPrefix(base, "filter#") || strings.HasPrefix(base, "mul("):
		return 0, true, "a count"
	}
	return 0, false, ""
}

func isIdent(s string) bool {
	for _, r := range s {
		if !(r == '_' || r >= '0' && r <= '9' || r >= 'a' && r <= 'z' || r >= 'A' && r <= 'Z') {
			return false
		}
	}
	return s != ""
}

func (it *Interp) Sym(name string) *lin.Expr {
	s := lin.Sym(name)
	if !it.gsyms[s] {
		it.gsyms[s] = true
		if lo, ok := it.ParamDomain[name]; ok {
			it.G.Cs = append(it.G.Cs, lin.Var(s).Add(lin.Const(-lo)))
		} else if lo, ok, _ := domainFor(name); ok {
			it.G.Cs = append(it.G.Cs, lin.Var(s).Add(lin.Const(-lo)))
		}
	}
	return lin.V(s)
}

func (it *Interp) opaqueInt(hint string) IntV {
	return IntV{E: it.Sym(hint)}
}

// assume adds a constraint e >= 0 (only linear pieces are added).
func (it *Interp) assume(e *lin.Expr, why string) {
	if e.K == lin.KLin {
		it.G.Cs = append(it.G.Cs, e.T)
		it.res.Notes = append(it.res.Notes, "assumed "+e.String()+" >= 0: "+why)
	}
}

// decide resolves a condition cond >= 0, forking the analysis when Γ does not decide it.
func (it *Interp) decide(cond *lin.Expr, pos token.Pos) bool {
	if lin.ProveGE0(it.G, cond) {
		return true
	}
	if lin.ProveGE0(it.G, lin.AddC(lin.Neg(cond), -1)) {
		return false
	}
	type opt struct {
		ts  []lin.Term
		out bool
	}
	var opts []opt
	for _, l := range lin.Leaves(it.G, cond) {
		t1 := append(append([]lin.Term{}, l.Conds...), l.Val)
		if !lin.Infeasible(it.G.With(t1...).Cs) {
			opts = append(opts, opt{t1, true})
		}
		t2 := append(append([]lin.Term{}, l.Conds...), l.Val.Neg().Add(lin.Const(-1)))
		if !lin.Infeasible(it.G.With(t2...).Cs) {
			opts = append(opts, opt{t2, false})
		}
	}
	if len(opts) == 0 {
		it.undecided(pos, "condition with no feasible branch: "+cond.String())
		return false
	}
	k := 0
	if it.pos < len(it.script) {
		k = it.script[it.pos]
		if k >= len(opts) {
			k = 0
		}
	} else {
		for j := 1; j < len(opts); j++ {
			alt := append(append([]int{}, it.script[:it.pos]...), j)
			it.pending = append(it.pending, alt)
		}
		it.script = append(it.script, 0)
	}
	it.pos++
	o := opts[k]
	it.G.Cs = append(it.G.Cs, o.ts...)
	var cs []string
	for _, t := range o.ts {
		cs = append(cs, t.String()+" >= 0")
	}
	it.res.PathConds = append(it.res.PathConds, strings.Join(cs, " && "))
	return o.out
}

func (it *Interp) undecided(pos token.Pos, why string) {
	it.res.Undecided = append(it.res.Undecided, Undecided{Pos: pos, Why: why})
}

// ---------------------------------------------------------------------------
// Roots.

// AnalyzeRoot interprets fi with symbolic receiver and parameters along every
// decision path and returns one Result per path.
func (it *Interp) AnalyzeRoot(fi *load.FuncInfo) []*Result {
	var out []*Result
	it.pending = [][]int{{}}
	for len(it.pending) > 0 {
		sc := it.pending[len(it.pending)-1]
		it.pending = it.pending[:len(it.pending)-1]
		r := it.runRoot(fi, sc)
		out = append(out, r)
		if len(out) >= it.MaxPaths {
			r.Undecided = append(r.Undecided, Undecided{Pos: fi.Decl.Pos(), Why: "too many decision paths", Root: true})
			break
		}
	}
	return out
}

func (it *Interp) runRoot(fi *load.FuncInfo, script []int) (res *Result) {
	it.G = &lin.Ctx{}
	it.gsyms = map[lin.Sym]bool{}
	it.script = append([]int{}, script...)
	it.pos = 0
	it.nStream, it.nStage, it.nFork, it.nOpq = 0, 0, 0, 0
	it.callDepth = 0
	it.states = map[*Stage]*stState{}
	res = &Result{Root: fi, RootName: load.FuncName(fi.Fn), G: it.G, ContractsUsed: map[string]bool{}}
	it.res = res
	defer func() {
		if r := recover(); r != nil {
			if s, ok := r.(string); ok && strings.HasPrefix(s, "lin:") {
				res.Undecided = append(res.Undecided, Undecided{Pos: fi.Decl.Pos(), Why: "arithmetic: " + s, Root: true})
				return
			}
			panic(r)
		}
	}()
	res.N = it.Sym("n")
	sig := fi.Fn.Type().(*types.Signature)
	fr := &Frame{Fn: fi.Fn, FnName: res.RootName, Info: fi.Pkg.TypesInfo, PkgPath: fi.Pkg.PkgPath, Env: NewEnv(nil), Decl: fi.Decl}
	res.RootFrame = fr
	if sig.Recv() != nil {
		o := it.newSymObject(sig.Recv().Type(), "")
		res.Recv = o
		fr.Recv = o
		if fi.Decl.Recv != nil && len(fi.Decl.Recv.List) > 0 && len(fi.Decl.Recv.List[0].Names) > 0 {
			if obj := fi.Pkg.TypesInfo.Defs[fi.Decl.Recv.List[0].Names[0]]; obj != nil {
				fr.Env.Define(obj, o)
			}
		}
	}
	for i := 0; i < sig.Params().Len(); i++ {
		p := sig.Params().At(i)
		v := it.symbolicParam(p.Type(), p.Name(), fr, fi.Decl.Pos())
		res.Params = append(res.Params, v)
		fr.Env.Define(p, v)
	}
	if directChanOps(fi.Decl.Body, fi.Pkg.TypesInfo) {
		// the function consumes or produces in its caller's goroutine: a synchronous stage
		st := it.newStage("sync", fr, fi.Decl.Pos())
		fr.Stage = st
		st.Frame = fr
		it.runStage(fr, st, fi.Decl.Body.List)
	} else {
		it.execBlock(fr, fi.Decl.Body.List)
	}
	res.Ret = fr.Ret
	markReturned(fr.Ret)
	if o := res.Recv; o != nil && it.hasMethod(o, "IdlePeriod") {
		res.HasIdle = true
		if e, ok := it.IdleOf(fr, o); ok {
			res.Idle = lin.Simplify(it.G, e)
		}
	}
	for i := range res.Undecided {
		// every undecided site reached while interpreting from this root is attributed to it
		res.Undecided[i].Root = true
	}
	return res
}

// directChanOps: the body sends, receives or ranges over a channel outside any go statement or function literal.
func directChanOps(b *ast.BlockStmt, info *types.Info) bool {
	found := false
	ast.Inspect(b, func(m ast.Node) bool {
		switch y := m.(type) {
		case *ast.SendStmt:
			found = true
		case *ast.RangeStmt:
			if t := info.TypeOf(y.X); t != nil {
				if _, ok := t.Underlying().(*types.Chan); ok {
					found = true
				}
			}
		case *ast.UnaryExpr:
			if y.Op == token.ARROW {
				found = true
			}
		case *ast.GoStmt, *ast.FuncLit:
			return false
		}
		return !found
	})
	return found
}

func markReturned(v Value) {
	switch x := v.(type) {
	case *Stream:
		x.Returned = true
	case Tuple:
		for _, e := range x {
			markReturned(e)
		}
	case *Slice:
		if x.Homog {
			markReturned(x.Rep.V)
		}
		for _, c := range x.Elems {
			markReturned(c.V)
		}
	case *Report:
		// columns are consumed by the template
	}
}

func (it *Interp) symbolicParam(t types.Type, name string, fr *Frame, pos token.Pos) Value {
	switch u := t.Underlying().(type) {
	case *types.Chan:
		if u.Dir() == types.SendOnly {
			// an output parameter (Pipe's t): produced by this function
			s := it.newStream(name, pos, u.Elem(), fr)
			s.OutParam = true
			return s
		}
		s := it.newStream(name, pos, u.Elem(), fr)
		s.Len = it.res.N
		s.Lead = lin.C(0)
		s.Cap = lin.C(0)
		if it.DistinctLens {
			s.Len = it.Sym("n." + name)
			s.Cap = it.Sym("cap." + name)
		}
		s.Param = name
		s.Pending = false
		it.res.ParamStreams = append(it.res.ParamStreams, s)
		return s
	case *types.Basic:
		if u.Info()&types.IsInteger != 0 {
			return IntV{E: it.Sym(name)}
		}
		if u.Info()&types.IsNumeric != 0 {
			return NumV{From: name, Sym: sym.V("cfg:" + name)}
		}
		return Opaque{Why: "param " + name}
	case *types.Slice:
		if ch, ok := u.Elem().Underlying().(*types.Chan); ok {
			s := it.newStream(name+"[i]", pos, ch.Elem(), fr)
			s.Len = it.res.N
			s.Lead = lin.C(0)
			s.Cap = lin.C(0)
			if it.DistinctLens {
				s.Len = it.Sym("n." + name)
				s.Cap = it.Sym("cap." + name)
			}
			s.Param = name
			s.Homog = true
			s.Pending = false
			it.res.ParamStreams = append(it.res.ParamStreams, s)
			return &Slice{Homog: true, Rep: &Cell{V: s}, Len: it.Sym("len(" + name + ")")}
		}
		if isModuleNamedOrIface(u.Elem()) {
			o := it.newSymObject(u.Elem(), name+"[i]")
			return &Slice{Homog: true, Rep: &Cell{V: o}, Len: it.Sym("len(" + name + ")")}
		}
		return &Slice{Homog: true, Rep: &Cell{V: Opaque{Why: "slice elem"}}, Len: it.Sym("len(" + name + ")")}
	case *types.Signature:
		return Opaque{Why: "func param " + name}
	case *types.TypeParam:
		return NumV{From: name, Sym: sym.V("cfg:" + name)}
	}
	if isModuleNamedOrIface(t) {
		return it.newSymObject(t, name)
	}
	if tp, ok := t.(*types.TypeParam); ok {
		_ = tp
		return NumV{From: name}
	}
	return Opaque{Why: "param " + name}
}

func isModuleNamedOrIface(t types.Type) bool {
	if p, ok := t.(*types.Pointer); ok {
		t = p.Elem()
	}
	n, ok := t.(*types.Named)
	if !ok {
		return false
	}
	if n.Obj().Pkg() == nil {
		return false
	}
	return strings.HasPrefix(n.Obj().Pkg().Path(), load.ModulePath)
}

func (it *Interp) newSymObject(t types.Type, path string) *Object {
	o := &Object{Type: t, Path: path, Sym: true, Fields: map[string]*Cell{}}
	if p, ok := t.(*types.Pointer); ok {
		t = p.Elem()
	}
	if _, ok := t.Underlying().(*types.Interface); ok {
		o.Iface = true
	}
	it.res.Objects = append(it.res.Objects, o)
	it.applyTypeGamma(o)
	return o
}

func joinPath(p, f string) string {
	if p == "" {
		return f
	}
	return p + "." + f
}

func (it *Interp) newStream(name string, pos token.Pos, elem types.Type, fr *Frame) *Stream {
	it.nStream++
	s := &Stream{ID: it.nStream, Name: name, Pos: pos, Elem: elem, Pending: true, Paths: map[int]*PathInfo{}, Consumed: lin.C(0), Owner: fr, Cap: lin.C(0)}
	it.res.Streams = append(it.res.Streams, s)
	return s
}

func (it *Interp) newStage(kind string, fr *Frame, pos token.Pos) *Stage {
	it.nStage++
	st := &Stage{ID: it.nStage, Kind: kind, Fn: fr.Fn, FnName: fr.FnName, Pos: pos, Parent: fr.Stage, Frame: fr}
	st.Owner, st.Construct = it.ownerOf(fr, pos)
	it.res.Stages = append(it.res.Stages, st)
	return st
}

// ---------------------------------------------------------------------------
// Ownership of constructs.

func isWrapperDecl(d *ast.FuncDecl) bool {
	if d == nil || d.Body == nil || d.Recv != nil {
		return false
	}
	if len(d.Body.List) != 1 {
		return false
	}
	r, ok := d.Body.List[0].(*ast.ReturnStmt)
	if !ok || len(r.Results) != 1 {
		return false
	}
	_, ok = r.Results[0].(*ast.CallExpr)
	return ok
}

func hasGoStmt(d *ast.FuncDecl) bool {
	found := false
	if d == nil || d.Body == nil {
		return false
	}
	for _, s := range d.Body.List {
		if _, ok := s.(*ast.GoStmt); ok {
			found = true
		}
	}
	return found
}

func calleeDisplay(e ast.Expr) string {
	switch x := e.(type) {
	case *ast.Ident:
		return x.Name
	case *ast.SelectorExpr:
		return calleeDisplay(x.X) + "." + x.Sel.Name
	case *ast.IndexExpr:
		return calleeDisplay(x.X)
	case *ast.IndexListExpr:
		return calleeDisplay(x.X)
	case *ast.ParenExpr:
		return calleeDisplay(x.X)
	case *ast.CallExpr:
		return calleeDisplay(x.Fun) + "()"
	case *ast.FuncLit:
		return "func"
	}
	return "?"
}

func (it *Interp) callOrdinals(d *ast.FuncDecl) map[*ast.CallExpr]string {
	if m, ok := it.ordCache[d]; ok {
		return m
	}
	m := map[*ast.CallExpr]string{}
	cnt := map[string]int{}
	gm := map[*ast.GoStmt]string{}
	gcnt := 0
	ast.Inspect(d.Body, func(n ast.Node) bool {
		switch x := n.(type) {
		case *ast.CallExpr:
			name := calleeDisplay(x.Fun)
			cnt[name]++
			m[x] = fmt.Sprintf("%s#%d", name, cnt[name])
		case *ast.GoStmt:
			gcnt++
			gm[x] = fmt.Sprintf("go#%d", gcnt)
		}
		return true
	})
	it.ordCache[d] = m
	it.goOrd[d] = gm
	return m
}

// ownerOf returns the frame that owns a construct created in fr and the
// construct's name inside that owner.
func (it *Interp) ownerOf(fr *Frame, pos token.Pos) (*Frame, string) {
	var child *Frame
	var skipped []*Frame
	f := fr
	for f != nil {
		skip := false
		if f.Parent != nil { // the root is always an owner
			if f.Decl != nil && f.Decl.Recv == nil && (isWrapperDecl(f.Decl) || (hasGoStmt(f.Decl) && strings.HasSuffix(f.PkgPath, "/helper"))) {
				skip = true
			}
			if f.Decl == nil { // closure frame
				skip = true
			}
		}
		if !skip {
			break
		}
		child = f
		skipped = append(skipped, f)
		f = f.Parent
	}
	if f == nil {
		return fr, "?"
	}
	if child == nil {
		// a go statement written directly in the owner
		if f.Decl != nil {
			it.callOrdinals(f.Decl)
			for g, name := range it.goOrd[f.Decl] {
				if g.Pos() <= pos && pos <= g.End() {
					return f, name
				}
			}
		}
		return f, "go"
	}
	if f.Decl != nil {
		ords := it.callOrdinals(f.Decl)
		for i := len(skipped) - 1; i >= 0; i-- {
			if c := skipped[i].Call; c != nil {
				if name, ok := ords[c]; ok {
					return f, name
				}
			}
		}
	}
	return f, "?"
}

// ---------------------------------------------------------------------------
// Statements.

type ctl int

const (
	ctlNone ctl = iota
	ctlReturn
	ctlBreak
	ctlContinue
	ctlAbort
)

func (it *Interp) execBlock(fr *Frame, list []ast.Stmt) ctl {
	for i := 0; i < len(list); i++ {
		s := list[i]
		if fr.Stage != nil {
			// a checked receive followed by its `if !ok {...}` is handled as a unit
			if n, c, ok := it.stageRecvUnit(fr, list, i); ok {
				i += n - 1
				if c != ctlNone {
					return c
				}
				continue
			}
		}
		if c := it.exec(fr, s); c != ctlNone {
			return c
		}
	}
	return ctlNone
}

func (it *Interp) exec(fr *Frame, s ast.Stmt) ctl {
	switch x := s.(type) {
	case *ast.AssignStmt:
		it.execAssign(fr, x)
	case *ast.DeclStmt:
		gd, ok := x.Decl.(*ast.GenDecl)
		if !ok {
			return ctlNone
		}
		for _, sp := range gd.Specs {
			vs, ok := sp.(*ast.ValueSpec)
			if !ok {
				continue
			}
			for i, nm := range vs.Names {
				obj := fr.Info.Defs[nm]
				var v Value
				if i < len(vs.Values) {
					v = it.eval(fr, vs.Values[i])
				} else if obj != nil {
					v = it.zeroValue(obj.Type(), nm.Name)
				}
				if obj != nil {
					fr.Env.Define(obj, v)
				}
			}
		}
	case *ast.ExprStmt:
		it.eval(fr, x.X)
	case *ast.GoStmt:
		it.execGo(fr, x)
	case *ast.ReturnStmt:
		switch len(x.Results) {
		case 0:
			fr.Ret = nil
		case 1:
			fr.Ret = it.eval(fr, x.Results[0])
		default:
			var t Tuple
			for _, r := range x.Results {
				t = append(t, it.eval(fr, r))
			}
			fr.Ret = t
		}
		return ctlReturn
	case *ast.IfStmt:
		return it.execIf(fr, x)
	case *ast.BlockStmt:
		return it.execBlock(fr, x.List)
	case *ast.RangeStmt:
		return it.execRange(fr, x)
	case *ast.ForStmt:
		return it.execFor(fr, x)
	case *ast.IncDecStmt:
		v := it.eval(fr, x.X)
		if iv, ok := v.(IntV); ok {
			d := int64(1)
			if x.Tok == token.DEC {
				d = -1
			}
			it.assignTo(fr, x.X, IntV{E: lin.AddC(iv.E, d)}, false)
		} else {
			it.assignTo(fr, x.X, Opaque{Why: "incdec"}, false)
		}
	case *ast.DeferStmt:
		it.deferCall(fr, x.Call)
	case *ast.SendStmt:
		if fr.Stage != nil {
			it.stageSend(fr, x, nil)
		} else {
			it.undecided(x.Pos(), "channel send outside a goroutine stage")
		}
	case *ast.SwitchStmt:
		return it.execSwitch(fr, x)
	case *ast.BranchStmt:
		switch x.Tok {
		case token.BREAK:
			return ctlBreak
		case token.CONTINUE:
			return ctlContinue
		}
		it.undecided(x.Pos(), "goto/fallthrough")
	case *ast.EmptyStmt:
	case *ast.LabeledStmt:
		return it.exec(fr, x.Stmt)
	default:
		it.undecided(s.Pos(), fmt.Sprintf("unsupported statement %T", s))
	}
	return ctlNone
}

func (it *Interp) execSwitch(fr *Frame, x *ast.SwitchStmt) ctl {
	// Only value-producing switches without channel effects appear in builders
	// (Action.Annotation); the result of such a function is opaque.
	if containsChanOp(x) {
		it.undecided(x.Pos(), "switch with channel operations")
		return ctlNone
	}
	fr.Ret = Opaque{Why: "switch"}
	return ctlAbort
}

func (it *Interp) execIf(fr *Frame, x *ast.IfStmt) ctl {
	if x.Init != nil {
		if c := it.exec(fr, x.Init); c != ctlNone {
			return c
		}
	}
	cv := it.eval(fr, x.Cond)
	b, _ := cv.(BoolV)
	var take bool
	switch {
	case b.Known:
		take = b.Val
	case b.Cond != nil:
		take = it.decide(b.Cond, x.Pos())
	default:
		// opaque condition
		if fr.Stage != nil {
			return it.stageOpaqueIf(fr, x)
		}
		if containsChanOp(x) || it.touchesStreams(fr, x) {
			it.undecided(x.Pos(), "branch on a condition the calculus cannot decide: "+types.ExprString(x.Cond))
			return ctlNone
		}
		return ctlAbort
	}
	if take {
		return it.execBlock(fr, x.Body.List)
	}
	if x.Else != nil {
		return it.exec(fr, x.Else)
	}
	return ctlNone
}

// touchesStreams reports whether a statement mentions a channel-typed expression.
func (it *Interp) touchesStreams(fr *Frame, n ast.Node) bool {
	found := false
	ast.Inspect(n, func(m ast.Node) bool {
		if e, ok := m.(ast.Expr); ok {
			if tv, ok := fr.Info.Types[e]; ok && tv.Type != nil {
				if _, isCh := tv.Type.Underlying().(*types.Chan); isCh {
					found = true
				}
			}
		}
		return !found
	})
	return found
}

func containsChanOp(n ast.Node) bool {
	found := false
	ast.Inspect(n, func(m ast.Node) bool {
		switch y := m.(type) {
		case *ast.SendStmt:
			found = true
		case *ast.UnaryExpr:
			if y.Op == token.ARROW {
				found = true
			}
		case *ast.GoStmt:
			found = true
		case *ast.FuncLit:
			return false
		}
		return !found
	})
	return found
}

func (it *Interp) execRange(fr *Frame, x *ast.RangeStmt) ctl {
	coll := it.eval(fr, x.X)
	switch c := coll.(type) {
	case *Stream:
		if fr.Stage == nil {
			it.undecided(x.Pos(), "range over a channel outside a goroutine stage")
			return ctlNone
		}
		it.stageLoop(fr, nil, c, x.Key, x.Body, x.Pos(), x.Tok == token.DEFINE)
		return ctlNone
	case *Slice:
		bind := func(idx Value, el *Cell) {
			if x.Key != nil {
				if id, ok := x.Key.(*ast.Ident); ok && id.Name != "_" {
					if obj := fr.Info.Defs[id]; obj != nil {
						fr.Env.Define(obj, idx)
					} else if obj := fr.Info.Uses[id]; obj != nil {
						if cell := fr.Env.Lookup(obj); cell != nil {
							cell.V = idx
						}
					}
				}
			}
			if x.Value != nil {
				if id, ok := x.Value.(*ast.Ident); ok && id.Name != "_" {
					if obj := fr.Info.Defs[id]; obj != nil {
						fr.Env.vars[obj] = &Cell{V: el.V}
					}
				}
			}
		}
		if c.Homog {
			if fr.Stage != nil && containsChanOp(x.Body) && !onlyDefers(x.Body) {
				// a loop over a slice of symbolic length: a counted loop
				bind(Opaque{Why: "index"}, c.Rep)
				it.stageLoop(fr, c.Len, nil, nil, x.Body, x.Pos(), false)
				return ctlNone
			}
			bind(Opaque{Why: "index"}, c.Rep)
			ct := it.execBlock(fr, x.Body.List)
			if ct == ctlReturn || ct == ctlAbort {
				return ct
			}
			return ctlNone
		}
		for i, el := range c.Elems {
			bind(IntV{E: lin.C(int64(i))}, el)
			ct := it.execBlock(fr, x.Body.List)
			if ct == ctlBreak {
				break
			}
			if ct == ctlReturn || ct == ctlAbort {
				return ct
			}
		}
		return ctlNone
	case IntV:
		// for i := range n
		it.undecided(x.Pos(), "range over integer")
		return ctlNone
	default:
		if containsChanOp(x.Body) || it.touchesStreams(fr, x.Body) {
			it.undecided(x.Pos(), "range over "+showVal(coll))
			return ctlNone
		}
		return it.havoc(fr, x.Body)
	}
}

func onlyDefers(b *ast.BlockStmt) bool {
	for _, s := range b.List {
		if _, ok := s.(*ast.DeferStmt); !ok {
			return false
		}
	}
	return true
}

// havoc makes every variable assigned inside n opaque (a loop the calculus does not follow).
func (it *Interp) havoc(fr *Frame, n ast.Node) ctl {
	ast.Inspect(n, func(m ast.Node) bool {
		switch y := m.(type) {
		case *ast.AssignStmt:
			for _, l := range y.Lhs {
				if id, ok := l.(*ast.Ident); ok {
					if obj := fr.Info.Uses[id]; obj != nil {
						if c := fr.Env.Lookup(obj); c != nil {
							c.V = havocValue(c.V)
						}
					}
				}
			}
		case *ast.IncDecStmt:
			if id, ok := y.X.(*ast.Ident); ok {
				if obj := fr.Info.Uses[id]; obj != nil {
					if c := fr.Env.Lookup(obj); c != nil {
						c.V = havocValue(c.V)
					}
				}
			}
		case *ast.FuncLit:
			return false
		}
		return true
	})
	return ctlNone
}

func havocValue(v Value) Value {
	switch v.(type) {
	case *Stream, *Object, *Slice, *Closure, *Report:
		return v
	}
	return Opaque{Why: "assigned in a loop"}
}

func (it *Interp) execFor(fr *Frame, x *ast.ForStmt) ctl {
	if fr.Stage != nil && containsChanOp(x.Body) {
		it.stageFor(fr, x)
		return ctlNone
	}
	if fr.Stage != nil && it.callsWithChan(fr, x.Body) {
		it.stageFor(fr, x)
		return ctlNone
	}
	if containsChanOp(x.Body) || it.touchesStreams(fr, x.Body) {
		it.undecided(x.Pos(), "for loop with channel operations outside a stage")
		return ctlNone
	}
	if x.Init != nil {
		it.exec(fr, x.Init)
	}
	return it.havoc(fr, x)
}

// callsWithChan: the block calls a module function passing a channel (CountActions).
func (it *Interp) callsWithChan(fr *Frame, n ast.Node) bool {
	found := false
	ast.Inspect(n, func(m ast.Node) bool {
		if c, ok := m.(*ast.CallExpr); ok {
			for _, a := range c.Args {
				if tv, ok := fr.Info.Types[a]; ok && tv.Type != nil {
					switch u := tv.Type.Underlying().(type) {
					case *types.Chan:
						found = true
					case *types.Slice:
						if _, ok := u.Elem().Underlying().(*types.Chan); ok {
							found = true
						}
					}
				}
			}
		}
		if _, ok := m.(*ast.FuncLit); ok {
			return false
		}
		return !found
	})
	return found
}

func (it *Interp) execAssign(fr *Frame, x *ast.AssignStmt) {
	define := x.Tok == token.DEFINE
	if x.Tok != token.ASSIGN && x.Tok != token.DEFINE {
		// op-assign
		l := it.eval(fr, x.Lhs[0])
		r := it.eval(fr, x.Rhs[0])
		var op token.Token
		switch x.Tok {
		case token.ADD_ASSIGN:
			op = token.ADD
		case token.SUB_ASSIGN:
			op = token.SUB
		case token.MUL_ASSIGN:
			op = token.MUL
		case token.QUO_ASSIGN:
			op = token.QUO
		default:
			op = token.ILLEGAL
		}
		it.assignTo(fr, x.Lhs[0], it.binop(fr, op, l, r, x.Pos()), false)
		return
	}
	if len(x.Lhs) == len(x.Rhs) {
		vals := make([]Value, len(x.Rhs))
		for i, r := range x.Rhs {
			vals[i] = it.eval(fr, r)
		}
		for i, l := range x.Lhs {
			it.assignTo(fr, l, vals[i], define)
		}
		return
	}
	if len(x.Rhs) == 1 {
		// receive with ok in builder mode, tuple call, map index, type assert
		if u, ok := x.Rhs[0].(*ast.UnaryExpr); ok && u.Op == token.ARROW {
			if fr.Stage != nil {
				it.stageRecv(fr, x, u, nil)
				return
			}
			it.undecided(x.Pos(), "channel receive outside a goroutine stage")
			return
		}
		v := it.eval(fr, x.Rhs[0])
		t, _ := v.(Tuple)
		for i, l := range x.Lhs {
			var ev Value = Opaque{Why: "tuple element"}
			if i < len(t) {
				ev = t[i]
			}
			it.assignTo(fr, l, ev, define)
		}
		return
	}
	it.undecided(x.Pos(), "unsupported assignment shape")
}

func (it *Interp) assignTo(fr *Frame, l ast.Expr, v Value, define bool) {
	switch t := l.(type) {
	case *ast.Ident:
		if t.Name == "_" {
			return
		}
		if define {
			if obj := fr.Info.Defs[t]; obj != nil {
				fr.Env.Define(obj, v)
				if s, ok := v.(*Stream); ok && s.Pending && s.Name == "chan" {
					s.Name = t.Name
				}
				return
			}
		}
		obj := fr.Info.Uses[t]
		if obj == nil {
			obj = fr.Info.Defs[t]
		}
		if obj == nil {
			return
		}
		if c := fr.Env.Lookup(obj); c != nil {
			c.V = v
		} else {
			fr.Env.Define(obj, v)
		}
	case *ast.IndexExpr:
		base := it.eval(fr, t.X)
		sl, ok := base.(*Slice)
		if !ok {
			if _, isOp := base.(Opaque); !isOp {
				it.undecided(l.Pos(), "index assignment into "+showVal(base))
			}
			return
		}
		if sl.Homog {
			sl.Rep.V = v
			return
		}
		idx := it.eval(fr, t.Index)
		iv, ok := idx.(IntV)
		if !ok || !iv.E.IsLin() || !iv.E.T.IsConst() {
			it.undecided(l.Pos(), "index assignment with a non-constant index")
			return
		}
		k := int(iv.E.T.C)
		if k < 0 || k >= len(sl.Elems) {
			it.undecided(l.Pos(), fmt.Sprintf("index %d out of range (len %d)", k, len(sl.Elems)))
			return
		}
		sl.Elems[k].V = v
	case *ast.SelectorExpr:
		base := it.eval(fr, t.X)
		o, ok := base.(*Object)
		if !ok {
			return
		}
		it.setField(o, t.Sel.Name, v)
	case *ast.StarExpr:
		// *p = v : ignore
	case *ast.ParenExpr:
		it.assignTo(fr, t.X, v, define)
	default:
		it.undecided(l.Pos(), fmt.Sprintf("unsupported assignment target %T", l))
	}
}

func (it *Interp) setField(o *Object, name string, v Value) {
	if iv, ok := v.(IntV); ok && strings.Contains(name, "Period") && name != "LaggingPeriod" {
		// a bare opaque call result stored into a period field is a period
		if iv.E.IsLin() && len(iv.E.T.M) == 1 && iv.E.T.C == 0 {
			for s, k := range iv.E.T.M {
				if k == 1 && strings.Contains(string(s), "()#") {
					it.assume(lin.AddC(iv.E, -1), "value stored into field "+name+" is a period")
				}
			}
		}
	}
	if c, ok := o.Fields[name]; ok {
		c.V = v
	} else {
		o.Fields[name] = &Cell{V: v}
	}
}

// ---------------------------------------------------------------------------
// Expressions.

func (it *Interp) zeroValue(t types.Type, name string) Value {
	switch u := t.Underlying().(type) {
	case *types.Basic:
		if u.Info()&types.IsInteger != 0 {
			return IntV{E: lin.C(0)}
		}
		if u.Info()&types.IsNumeric != 0 {
			return NumV{Lit: "0"}
		}
		if u.Info()&types.IsBoolean != 0 {
			return BoolV{Known: true, Val: false}
		}
	case *types.Slice:
		return &Slice{}
	case *types.TypeParam:
		return NumV{Lit: "0"}
	}
	if _, ok := t.(*types.TypeParam); ok {
		return NumV{Lit: "0"}
	}
	return Opaque{Why: "zero " + name}
}

func (it *Interp) eval(fr *Frame, e ast.Expr) Value {
	// constants first
	if tv, ok := fr.Info.Types[e]; ok && tv.Value != nil {
		if v, ok := constToValue(tv); ok {
			if _, isLit := e.(*ast.BasicLit); isLit {
				return v
			}
			// a named constant of a defined non-numeric type keeps its name (strategy.Hold)
			if cv := it.namedConst(fr, e); cv != nil {
				return cv
			}
			return v
		}
	}
	switch x := e.(type) {
	case *ast.ParenExpr:
		return it.eval(fr, x.X)
	case *ast.BasicLit:
		switch x.Kind {
		case token.INT:
			n, err := strconv.ParseInt(x.Value, 0, 64)
			if err == nil {
				return IntV{E: lin.C(n)}
			}
		case token.FLOAT:
			return NumV{Lit: x.Value}
		}
		return Opaque{Why: "literal"}
	case *ast.Ident:
		return it.evalIdent(fr, x)
	case *ast.SelectorExpr:
		return it.evalSelector(fr, x)
	case *ast.CallExpr:
		return it.evalCall(fr, x)
	case *ast.UnaryExpr:
		return it.evalUnary(fr, x)
	case *ast.BinaryExpr:
		l := it.eval(fr, x.X)
		r := it.eval(fr, x.Y)
		return it.binop(fr, x.Op, l, r, x.Pos())
	case *ast.IndexExpr:
		// generic instantiation f[T] or slice index
		if tv, ok := fr.Info.Types[x.X]; ok {
			if _, isSig := tv.Type.Underlying().(*types.Signature); isSig {
				return it.eval(fr, x.X)
			}
		}
		base := it.eval(fr, x.X)
		switch b := base.(type) {
		case *Slice:
			if b.Homog {
				return b.Rep.V
			}
			idx := it.eval(fr, x.Index)
			iv, ok := idx.(IntV)
			if !ok || !iv.E.IsLin() || !iv.E.T.IsConst() {
				it.undecided(x.Pos(), "slice index is not a constant")
				return Opaque{Why: "index"}
			}
			k := int(iv.E.T.C)
			if k < 0 || k >= len(b.Elems) {
				it.undecided(x.Pos(), fmt.Sprintf("index %d out of range (len %d)", k, len(b.Elems)))
				return Opaque{Why: "index"}
			}
			return b.Elems[k].V
		}
		return Opaque{Why: "index"}
	case *ast.IndexListExpr:
		return it.eval(fr, x.X)
	case *ast.CompositeLit:
		return it.evalComposite(fr, x)
	case *ast.FuncLit:
		return &Closure{Lit: x, Env: fr.Env, Frame: fr}
	case *ast.StarExpr:
		return it.eval(fr, x.X)
	case *ast.TypeAssertExpr:
		return Opaque{Why: "type assertion"}
	case *ast.SliceExpr:
		// xs[a:b] of a slice of known elements with constant bounds: the same cells
		if sl, ok := it.eval(fr, x.X).(*Slice); ok && !sl.Homog && !x.Slice3 {
			bound := func(e ast.Expr, dflt int) (int, bool) {
				if e == nil {
					return dflt, true
				}
				if iv, ok := it.eval(fr, e).(IntV); ok && iv.E.IsLin() && iv.E.T.IsConst() {
					return int(iv.E.T.C), true
				}
				return 0, false
			}
			lo, ok1 := bound(x.Low, 0)
			hi, ok2 := bound(x.High, len(sl.Elems))
			if ok1 && ok2 && 0 <= lo && lo <= hi && hi <= len(sl.Elems) {
				return &Slice{Elems: sl.Elems[lo:hi:hi], Len: lin.C(int64(hi - lo))}
			}
		}
		return Opaque{Why: "slice expr"}
	case *ast.KeyValueExpr:
		return it.eval(fr, x.Value)
	}
	return Opaque{Why: fmt.Sprintf("%T", e)}
}

func constToValue(tv types.TypeAndValue) (Value, bool) {
	switch tv.Value.Kind() {
	case constant.Int:
		if n, ok := constant.Int64Val(tv.Value); ok {
			if b, isB := tv.Type.Underlying().(*types.Basic); isB && b.Info()&types.IsInteger != 0 {
				return IntV{E: lin.C(n)}, true
			}
			return NumV{Lit: tv.Value.ExactString()}, true
		}
	case constant.Float:
		return NumV{Lit: tv.Value.String()}, true
	case constant.Bool:
		return BoolV{Known: true, Val: constant.BoolVal(tv.Value)}, true
	case constant.String:
		return StrV{S: constant.StringVal(tv.Value)}, true
	}
	return nil, false
}

// namedConst returns a ConstV when e denotes a constant of a module-defined type (strategy.Action).
func (it *Interp) namedConst(fr *Frame, e ast.Expr) Value {
	var id *ast.Ident
	switch x := e.(type) {
	case *ast.Ident:
		id = x
	case *ast.SelectorExpr:
		id = x.Sel
	default:
		return nil
	}
	obj, _ := fr.Info.Uses[id].(*types.Const)
	if obj == nil {
		return nil
	}
	if n, ok := obj.Type().(*types.Named); ok && n.Obj().Pkg() != nil && strings.HasPrefix(n.Obj().Pkg().Path(), load.ModulePath) {
		return ConstV{Obj: obj, Name: n.Obj().Pkg().Name() + "." + obj.Name()}
	}
	return nil
}

func (it *Interp) evalIdent(fr *Frame, x *ast.Ident) Value {
	if x.Name == "nil" {
		return Opaque{Why: "nil"}
	}
	if x.Name == "true" || x.Name == "false" {
		return BoolV{Known: true, Val: x.Name == "true"}
	}
	obj := fr.Info.Uses[x]
	if obj == nil {
		obj = fr.Info.Defs[x]
	}
	if obj == nil {
		return Opaque{Why: "unresolved " + x.Name}
	}
	if c := fr.Env.Lookup(obj); c != nil {
		return c.V
	}
	switch o := obj.(type) {
	case *types.Func:
		return &FuncRef{Fn: o}
	case *types.Var:
		return Opaque{Why: "package variable " + o.Name()}
	}
	return Opaque{Why: "ident " + x.Name}
}

func (it *Interp) evalSelector(fr *Frame, x *ast.SelectorExpr) Value {
	// package-qualified identifier
	if id, ok := x.X.(*ast.Ident); ok {
		if _, isPkg := fr.Info.Uses[id].(*types.PkgName); isPkg {
			obj := fr.Info.Uses[x.Sel]
			switch o := obj.(type) {
			case *types.Func:
				return &FuncRef{Fn: o}
			case *types.Var:
				return Opaque{Why: "package variable " + o.Name()}
			}
			return Opaque{Why: "qualified " + x.Sel.Name}
		}
	}
	base := it.eval(fr, x.X)
	if o, ok := base.(*Object); ok {
		if sel, ok := fr.Info.Selections[x]; ok && sel.Kind() != types.FieldVal {
			fn, _ := sel.Obj().(*types.Func)
			return &FuncRef{Fn: fn, Recv: o}
		}
		return it.getField(o, x.Sel.Name, fr.Info.TypeOf(x))
	}
	if sel, ok := fr.Info.Selections[x]; ok && sel.Kind() != types.FieldVal {
		fn, _ := sel.Obj().(*types.Func)
		return &FuncRef{Fn: fn, Recv: base}
	}
	return Opaque{Why: "field of " + showVal(base)}
}

func (it *Interp) getField(o *Object, name string, t types.Type) Value {
	if c, ok := o.Fields[name]; ok {
		return c.V
	}
	var v Value
	if !o.Sym {
		if t != nil {
			v = it.zeroValue(t, name)
		} else {
			v = Opaque{Why: "unset field " + name}
		}
	} else {
		path := joinPath(o.Path, name)
		v = it.symbolicField(t, path)
	}
	o.Fields[name] = &Cell{V: v}
	return v
}

func (it *Interp) symbolicField(t types.Type, path string) Value {
	if t == nil {
		return Opaque{Why: "field " + path}
	}
	switch u := t.Underlying().(type) {
	case *types.Basic:
		if u.Info()&types.IsInteger != 0 {
			return IntV{E: it.Sym(path)}
		}
		if u.Info()&types.IsNumeric != 0 {
			return NumV{From: path, Sym: sym.V("cfg:" + path)}
		}
		return Opaque{Why: "field " + path}
	case *types.Slice:
		if isModuleNamedOrIface(u.Elem()) {
			o := it.newSymObject(u.Elem(), path+"[i]")
			return &Slice{Homog: true, Rep: &Cell{V: o}, Len: it.Sym("len(" + path + ")")}
		}
		return &Slice{Homog: true, Rep: &Cell{V: Opaque{Why: "elem"}}, Len: it.Sym("len(" + path + ")")}
	}
	if _, ok := t.(*types.TypeParam); ok {
		return NumV{From: path, Sym: sym.V("cfg:" + path)}
	}
	if isModuleNamedOrIface(t) {
		return it.newSymObject(t, path)
	}
	return Opaque{Why: "field " + path}
}

func (it *Interp) evalUnary(fr *Frame, x *ast.UnaryExpr) Value {
	switch x.Op {
	case token.AND:
		return it.eval(fr, x.X)
	case token.ARROW:
		if fr.Stage != nil {
			return it.stageRecvExpr(fr, x)
		}
		it.undecided(x.Pos(), "channel receive outside a goroutine stage")
		return Opaque{Why: "recv"}
	case token.SUB:
		v := it.eval(fr, x.X)
		switch t := v.(type) {
		case IntV:
			return IntV{E: lin.Neg(t.E)}
		case NumV:
			var sx sym.Expr
			if ts, ok := NumSym(t); ok {
				sx = sym.Neg{X: ts}
			}
			if t.Lit != "" {
				return NumV{Lit: "-" + t.Lit, Sym: sx}
			}
			return NumV{From: "-" + t.From, Sym: sx}
		}
		return Opaque{Why: "neg"}
	case token.NOT:
		v := it.eval(fr, x.X)
		if b, ok := v.(BoolV); ok {
			if b.Known {
				return BoolV{Known: true, Val: !b.Val}
			}
			if b.Cond != nil {
				return BoolV{Cond: lin.AddC(lin.Neg(b.Cond), -1)}
			}
		}
		return BoolV{}
	}
	return Opaque{Why: "unary"}
}

func (it *Interp) binop(fr *Frame, op token.Token, l, r Value, pos token.Pos) Value {
	li, lok := l.(IntV)
	ri, rok := r.(IntV)
	if lok && rok {
		switch op {
		case token.ADD:
			return IntV{E: lin.Add(li.E, ri.E)}
		case token.SUB:
			return IntV{E: lin.Sub(li.E, ri.E)}
		case token.MUL:
			if ri.E.IsLin() && ri.E.T.IsConst() {
				return IntV{E: lin.Scale(li.E, ri.E.T.C)}
			}
			if li.E.IsLin() && li.E.T.IsConst() {
				return IntV{E: lin.Scale(ri.E, li.E.T.C)}
			}
			return it.opaqueInt("mul(" + li.E.String() + "," + ri.E.String() + ")")
		case token.QUO, token.REM:
			if li.E.IsLin() && li.E.T.IsConst() && ri.E.IsLin() && ri.E.T.IsConst() && ri.E.T.C != 0 {
				if op == token.QUO {
					return IntV{E: lin.C(li.E.T.C / ri.E.T.C)}
				}
				return IntV{E: lin.C(li.E.T.C % ri.E.T.C)}
			}
			o := "div"
			if op == token.REM {
				o = "mod"
			}
			return it.opaqueInt(o + "(" + li.E.String() + "," + ri.E.String() + ")")
		case token.LSS:
			return BoolV{Cond: lin.AddC(lin.Sub(ri.E, li.E), -1)}
		case token.LEQ:
			return BoolV{Cond: lin.Sub(ri.E, li.E)}
		case token.GTR:
			return BoolV{Cond: lin.AddC(lin.Sub(li.E, ri.E), -1)}
		case token.GEQ:
			return BoolV{Cond: lin.Sub(li.E, ri.E)}
		case token.EQL, token.NEQ:
			d := lin.Sub(li.E, ri.E)
			if lin.ProveEQ(it.G, d, lin.C(0)) {
				return BoolV{Known: true, Val: op == token.EQL}
			}
			if lin.ProveGE0(it.G, lin.AddC(d, -1)) || lin.ProveGE0(it.G, lin.AddC(lin.Neg(d), -1)) {
				return BoolV{Known: true, Val: op == token.NEQ}
			}
			// one side is excluded by what is known: equality is a single inequality
			if lin.ProveGE0(it.G, d) { // d >= 0: d == 0 iff -d >= 0; d != 0 iff d-1 >= 0
				if op == token.EQL {
					return BoolV{Cond: lin.Neg(d)}
				}
				return BoolV{Cond: lin.AddC(d, -1)}
			}
			if lin.ProveGE0(it.G, lin.Neg(d)) {
				if op == token.EQL {
					return BoolV{Cond: d}
				}
				return BoolV{Cond: lin.AddC(lin.Neg(d), -1)}
			}
			return BoolV{}
		}
		return Opaque{Why: "int op " + op.String()}
	}
	switch op {
	case token.LAND, token.LOR:
		lb, lk := l.(BoolV)
		rb, rk := r.(BoolV)
		if lk && rk && lb.Known && rb.Known {
			if op == token.LAND {
				return BoolV{Known: true, Val: lb.Val && rb.Val}
			}
			return BoolV{Known: true, Val: lb.Val || rb.Val}
		}
		if lk && lb.Known {
			if op == token.LAND && !lb.Val {
				return BoolV{Known: true, Val: false}
			}
			if op == token.LOR && lb.Val {
				return BoolV{Known: true, Val: true}
			}
			if rk {
				return rb
			}
		}
		return BoolV{}
	case token.LSS, token.LEQ, token.GTR, token.GEQ, token.EQL, token.NEQ:
		return BoolV{}
	case token.ADD, token.SUB, token.MUL, token.QUO, token.REM:
		_, ln := l.(NumV)
		_, rn := r.(NumV)
		if (ln || lok) && (rn || rok) {
			ls, ok1 := NumSym(l)
			rs, ok2 := NumSym(r)
			if ok1 && ok2 {
				ops := map[token.Token]string{token.ADD: "+", token.SUB: "-", token.MUL: "*", token.QUO: "/"}
				if o, ok := ops[op]; ok {
					return NumV{From: "arith", Sym: sym.Bin{Op: o, L: ls, R: rs}}
				}
			}
			return NumV{From: "arith"}
		}
	}
	return Opaque{Why: "binop " + op.String()}
}

func (it *Interp) evalComposite(fr *Frame, x *ast.CompositeLit) Value {
	t := fr.Info.TypeOf(x)
	if t == nil {
		return Opaque{Why: "composite"}
	}
	switch u := t.Underlying().(type) {
	case *types.Struct:
		o := &Object{Type: t, Path: "<" + it.Prog.Pos(x.Pos()) + ">", Fields: map[string]*Cell{}, Site: it.Prog.Pos(x.Pos())}
		it.res.Objects = append(it.res.Objects, o)
		for i, el := range x.Elts {
			if kv, ok := el.(*ast.KeyValueExpr); ok {
				if id, ok := kv.Key.(*ast.Ident); ok {
					it.setField(o, id.Name, it.eval(fr, kv.Value))
				}
			} else if i < u.NumFields() {
				it.setField(o, u.Field(i).Name(), it.eval(fr, el))
			}
		}
		return o
	case *types.Slice:
		sl := &Slice{}
		for _, el := range x.Elts {
			sl.Elems = append(sl.Elems, &Cell{V: it.eval(fr, el)})
		}
		sl.Len = lin.C(int64(len(sl.Elems)))
		return sl
	case *types.Map:
		return Opaque{Why: "map literal"}
	}
	return Opaque{Why: "composite " + t.String()}
}

func min(a, b int) int {
	if a < b {
		return a
	}
	return b
}

// deferCall evaluates the deferred call's operands now and runs it at frame exit.
func (it *Interp) deferCall(fr *Frame, call *ast.CallExpr) {
	if id, ok := call.Fun.(*ast.Ident); ok {
		if _, isB := fr.Info.Uses[id].(*types.Builtin); isB && id.Name == "close" && len(call.Args) == 1 {
			v := it.eval(fr, call.Args[0])
			pos := call.Pos()
			fr.Defers = append(fr.Defers, func() {
				if s, ok := v.(*Stream); ok && fr.Stage != nil {
					it.stageClose(fr, s, pos)
				}
			})
			return
		}
	}
	if _, isLit := call.Fun.(*ast.FuncLit); isLit {
		fr.Defers = append(fr.Defers, func() { it.eval(fr, call) })
		return
	}
	fv := it.eval(fr, call.Fun)
	ref, ok := fv.(*FuncRef)
	if !ok {
		fr.Defers = append(fr.Defers, func() { it.eval(fr, call) })
		return
	}
	args := it.evalArgs(fr, call)
	fr.Defers = append(fr.Defers, func() {
		fi := it.Prog.Info(ref.Fn)
		if fi == nil {
			return
		}
		it.inline(fr, fi, ref.Recv, args, call)
	})
}
