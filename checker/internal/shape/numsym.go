package shape

import (
	"math/big"

	"verif/checker/internal/lin"
	"verif/checker/internal/sym"
)

// LinToSym converts a piecewise-linear integer expression over configuration symbols to a
// symbolic expression (symbols are prefixed with "cfg:").
func LinToSym(e *lin.Expr) sym.Expr {
	switch e.K {
	case lin.KLin:
		var r sym.Expr = sym.Num{V: big.NewRat(e.T.C, 1)}
		first := e.T.C == 0
		for _, s := range e.T.Syms() {
			k := e.T.M[s]
			var t sym.Expr = sym.V("cfg:" + string(s))
			if k != 1 {
				t = sym.Mul(sym.N(k), t)
			}
			if first {
				r = t
				first = false
			} else {
				r = sym.Add(r, t)
			}
		}
		return r
	case lin.KMax:
		return sym.F("max", LinToSym(e.A), LinToSym(e.B))
	case lin.KMin:
		return sym.F("min", LinToSym(e.A), LinToSym(e.B))
	case lin.KAdd:
		return sym.Add(LinToSym(e.A), LinToSym(e.B))
	default:
		return sym.Ite{Cond: sym.Cmp{Op: ">=", L: LinToSym(lin.L(e.Cond)), R: sym.N(0)}, A: LinToSym(e.A), B: LinToSym(e.B)}
	}
}

// NumSym gives the symbolic value of a numeric abstract value.
func NumSym(v Value) (sym.Expr, bool) {
	switch x := v.(type) {
	case IntV:
		return LinToSym(x.E), true
	case NumV:
		if x.Sym != nil {
			return x.Sym, true
		}
		if x.Lit != "" {
			if n, ok := sym.ParseNum(x.Lit); ok {
				return n, true
			}
		}
		return nil, false
	}
	return nil, false
}
