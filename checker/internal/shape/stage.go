package shape

import (
	"fmt"
	"go/ast"
	"go/token"
	"go/types"

	"verif/checker/internal/lin"
	"verif/checker/internal/load"
)

// ElemV is the abstract value of a stream element (or anything computed from
// elements): only its provenance is kept.
type ElemV struct {
	Deps []*Stream
	// for a value computed in a loop body (nil Def and not Carried: a raw element)
	Def     ast.Expr     // the defining right-hand side
	Fr      *Frame       // where Def is evaluated
	Carried bool         // depends on what an earlier iteration left behind
	Self    types.Object // the variable itself when it is loop-carried
	Init    Value        // its value before the loop
	Obj     types.Object // the local a computed value was bound to by :=
}

func mergeElem(vs ...Value) ElemV {
	var r ElemV
	seen := map[*Stream]bool{}
	for _, v := range vs {
		if e, ok := v.(ElemV); ok {
			for _, s := range e.Deps {
				if !seen[s] {
					seen[s] = true
					r.Deps = append(r.Deps, s)
				}
			}
			if e.Carried {
				r.Carried = true
			}
		}
	}
	return r
}

// stState is the token-count state of one stage while its body is interpreted.
type stState struct {
	sent          map[*Stream]*lin.Expr
	lead          map[*Stream]*lin.Expr
	outs          []*Stream
	gates         []*lin.Expr // the rest of the body runs only if every gate >= 1
	closed        map[*Stream]bool
	closedAll     map[*Stream]bool
	deferredClose map[*Stream]bool
	ins           map[*Stream]*StageIn
	depLead       *lin.Expr
	order         int
	drains        int
	inDefer       bool
	filterN       int
}

func (it *Interp) state(st *Stage) *stState {
	s := it.states[st]
	if s == nil {
		s = &stState{sent: map[*Stream]*lin.Expr{}, lead: map[*Stream]*lin.Expr{}, closed: map[*Stream]bool{}, closedAll: map[*Stream]bool{}, deferredClose: map[*Stream]bool{}, ins: map[*Stream]*StageIn{}}
		it.states[st] = s
	}
	return s
}

// When is ite(g >= k, then, els) for a piecewise-linear g.
func When(g *lin.Expr, k int64, then, els *lin.Expr) *lin.Expr {
	switch g.K {
	case lin.KLin:
		return lin.Ite(g.T.Add(lin.Const(-k)), then, els)
	case lin.KMax:
		return When(g.A, k, then, When(g.B, k, then, els))
	case lin.KMin:
		return When(g.A, k, When(g.B, k, then, els), els)
	default:
		return lin.Ite(g.Cond, When(g.A, k, then, els), When(g.B, k, then, els))
	}
}

func (it *Interp) gated(ss *stState, delta *lin.Expr) *lin.Expr {
	r := delta
	for i := len(ss.gates) - 1; i >= 0; i-- {
		r = When(ss.gates[i], 1, r, lin.C(0))
	}
	return r
}

// underGates simplifies e assuming every gate passes (a stream that fails a
// gate has no elements, so its anchor is immaterial).
func (it *Interp) underGates(ss *stState, e *lin.Expr, extra ...*lin.Expr) *lin.Expr {
	gates := append(append([]*lin.Expr{}, ss.gates...), extra...)
	if len(gates) == 0 {
		return lin.Simplify(it.G, e)
	}
	ctxs := []*lin.Ctx{it.G}
	for _, g := range gates {
		var next []*lin.Ctx
		for _, c := range ctxs {
			for _, l := range lin.Leaves(c, g) {
				nc := c.With(l.Conds...).With(l.Val.Add(lin.Const(-1)))
				if !lin.Infeasible(nc.Cs) {
					next = append(next, nc)
				}
			}
		}
		ctxs = next
		if len(ctxs) > 16 {
			return lin.Simplify(it.G, e)
		}
	}
	if len(ctxs) == 0 {
		return lin.Simplify(it.G, e)
	}
	var res *lin.Expr
	for _, c := range ctxs {
		s := lin.Simplify(c, e)
		if res == nil {
			res = s
		} else if res.String() != s.String() {
			return lin.Simplify(it.G, e)
		}
	}
	return res
}

func (it *Interp) rem(s *Stream) *lin.Expr {
	if s.Len == nil {
		return lin.C(0)
	}
	return lin.Simplify(it.G, lin.Sub(s.Len, s.Consumed))
}

func (it *Interp) stageIn(st *Stage, s *Stream, checked bool, inLoop bool, pos token.Pos) *StageIn {
	ss := it.state(st)
	in := ss.ins[s]
	if in == nil {
		lead := s.Lead
		if lead == nil {
			lead = lin.C(0)
		}
		in = &StageIn{S: s, Checked: checked, LeadAt: lin.Add(lead, s.Consumed), Consumed: lin.C(0), Order: ss.order, InLoop: inLoop}
		ss.order++
		ss.ins[s] = in
		st.Ins = append(st.Ins, in)
		s.Readers = append(s.Readers, &Read{Stage: st, Pos: pos, Kind: "recv"})
	}
	if inLoop && !in.InLoop {
		in.InLoop = true
		lead := s.Lead
		if lead == nil {
			lead = lin.C(0)
		}
		in.LeadAt = lin.Add(lead, s.Consumed)
	}
	if !checked {
		in.Checked = false
	}
	return in
}

func (it *Interp) noteOut(st *Stage, o *Stream) {
	ss := it.state(st)
	if _, ok := ss.sent[o]; !ok {
		ss.sent[o] = lin.C(0)
		ss.outs = append(ss.outs, o)
		st.Outs = append(st.Outs, o)
	}
}

func (it *Interp) bumpDep(ss *stState, e *lin.Expr) {
	if ss.depLead == nil {
		ss.depLead = e
	} else {
		ss.depLead = lin.Max(ss.depLead, e)
	}
}

func (it *Interp) bumpLead(ss *stState, o *Stream, e *lin.Expr) {
	if cur, ok := ss.lead[o]; ok && cur != nil {
		ss.lead[o] = lin.Max(cur, e)
	} else {
		ss.lead[o] = e
	}
}

// runStage interprets a goroutine body and finalises the streams it produces.
func (it *Interp) runStage(fr *Frame, st *Stage, body []ast.Stmt) {
	ss := it.state(st)
	c := it.execBlock(fr, body)
	_ = c
	ss.inDefer = true
	for i := len(fr.Defers) - 1; i >= 0; i-- {
		fr.Defers[i]()
	}
	fr.Defers = nil
	it.finishStage(st)
}

func (it *Interp) finishStage(st *Stage) {
	ss := it.state(st)
	var ins []*Stream
	for _, in := range st.Ins {
		ins = append(ins, in.S)
		in.Consumed = in.S.Consumed
		if in.S.Len != nil && lin.ProveEQ(it.G, in.S.Consumed, in.S.Len) {
			in.Drained = true
		}
		if (in.S.Homog || in.Homog) && in.Partial {
			in.Drained = false // siblings of different lengths: the arithmetic on the representative does not apply
		}
		for _, r := range in.S.Readers {
			if r.Stage == st {
				r.Drained = in.Drained
				r.Consumed = in.S.Consumed
				r.Bounded = !in.Drained
			}
		}
	}
	fork := 0
	if len(ss.outs) > 1 || (len(ss.outs) == 1 && ss.outs[0].Homog) {
		it.nFork++
		fork = it.nFork
	}
	for i, o := range ss.outs {
		o.Pending = false
		o.Producer = st
		o.Len = lin.Simplify(it.G, ss.sent[o])
		if l, ok := ss.lead[o]; ok && l != nil {
			o.Lead = it.underGates(ss, l, o.Len)
		} else {
			o.Lead = lin.C(0)
			if len(ins) > 0 {
				// never depended on an input (pure fill)
				o.Lead = lin.C(0)
			}
		}
		if o.FillN != nil {
			o.FillN = lin.Simplify(it.G, o.FillN)
		}
		o.Closed = ss.closedAll[o]
		it.inheritPaths(o, st, ins)
		if fork > 0 {
			o.ForkID = fork
			o.ForkIdx = i
			o.Paths[fork] = &PathInfo{Cap: o.Cap, Stages: 0, Lead0: o.Lead, Idx: i}
		}
	}
	if len(ss.outs) > 0 {
		hasDrain := ss.drains > 0
		allDeferred := true
		for _, o := range ss.outs {
			if !ss.deferredClose[o] {
				allDeferred = false
			}
		}
		st.DrainBeforeClose = hasDrain && allDeferred
	}
}

func (it *Interp) stageClose(fr *Frame, s *Stream, pos token.Pos) {
	st := fr.Stage
	ss := it.state(st)
	it.noteOut(st, s)
	ss.closed[s] = true
	if ss.inDefer || len(ss.gates) == 0 {
		ss.closedAll[s] = true
	}
	if ss.inDefer {
		ss.deferredClose[s] = true
	}
}

// frameInDefer: closes executed from a deferred call of an inlined callee (Pipe)
// cover every exit of that callee; they count as closing on all paths as long as
// no gate was opened before the callee started. We approximate: a close reached
// while no gate is open, or from the stage's own defers, covers all paths.

func (it *Interp) stageSend(fr *Frame, x *ast.SendStmt, lc *loopCtx) {
	st := fr.Stage
	ss := it.state(st)
	cv := it.eval(fr, x.Chan)
	o, ok := cv.(*Stream)
	if !ok {
		it.undecided(x.Pos(), "send on a non-stream value "+showVal(cv))
		return
	}
	it.noteClosures(fr, st, x.Value)
	st.Sends = append(st.Sends, &SendInfo{Out: o, Expr: x.Value, Frame: fr, Pos: x.Pos()})
	it.noteOut(st, o)
	before := ss.sent[o]
	ss.sent[o] = lin.Add(before, it.gated(ss, lin.C(1)))
	if ss.depLead != nil {
		it.bumpLead(ss, o, lin.Sub(ss.depLead, before))
	}
}

// noteClosures records closures invoked in e.
func (it *Interp) noteClosures(fr *Frame, st *Stage, e ast.Node) {
	ast.Inspect(e, func(n ast.Node) bool {
		if c, ok := n.(*ast.CallExpr); ok {
			if id, ok := c.Fun.(*ast.Ident); ok {
				if obj := fr.Info.Uses[id]; obj != nil {
					if cell := fr.Env.Lookup(obj); cell != nil {
						if cl, ok := cell.V.(*Closure); ok {
							for _, k := range st.Closures {
								if k == cl {
									return true
								}
							}
							st.Closures = append(st.Closures, cl)
						}
					}
				}
			}
		}
		if _, ok := n.(*ast.FuncLit); ok {
			return false
		}
		return true
	})
}

// stageRecvExpr handles `<-X` used as an expression: an unchecked single receive.
func (it *Interp) stageRecvExpr(fr *Frame, u *ast.UnaryExpr) Value {
	st := fr.Stage
	ss := it.state(st)
	v := it.eval(fr, u.X)
	s, ok := v.(*Stream)
	if !ok {
		it.undecided(u.Pos(), "receive from a non-stream value "+showVal(v))
		return Opaque{Why: "recv"}
	}
	in := it.stageIn(st, s, false, false, u.Pos())
	_ = in
	rem := it.rem(s)
	it.res.Phantoms = append(it.res.Phantoms, Phantom{Stage: st, S: s, Pos: u.Pos(), Need: it.gated(ss, lin.C(1)), Have: rem, Sent: true})
	lead := s.Lead
	if lead == nil {
		lead = lin.C(0)
	}
	it.bumpDep(ss, lin.Add(lead, s.Consumed))
	s.Consumed = lin.Simplify(it.G, lin.Add(s.Consumed, it.gated(ss, lin.Min(lin.C(1), rem))))
	return ElemV{Deps: []*Stream{s}}
}

// stageRecv handles `v, ok := <-c` that is not followed by a recognised check.
func (it *Interp) stageRecv(fr *Frame, a *ast.AssignStmt, u *ast.UnaryExpr, lc *loopCtx) {
	v := it.stageRecvExpr(fr, u)
	for i, l := range a.Lhs {
		if i == 0 {
			it.assignTo(fr, l, v, a.Tok == token.DEFINE)
		} else {
			it.assignTo(fr, l, BoolV{}, a.Tok == token.DEFINE)
		}
	}
}

// okCheck recognises `if !ok { ... ; return|break }` and returns the body.
func okCheck(fr *Frame, s ast.Stmt, okObj types.Object) (*ast.IfStmt, bool) {
	is, ok := s.(*ast.IfStmt)
	if !ok || is.Init != nil || is.Else != nil {
		return nil, false
	}
	un, ok := is.Cond.(*ast.UnaryExpr)
	if !ok || un.Op != token.NOT {
		return nil, false
	}
	id, ok := un.X.(*ast.Ident)
	if !ok {
		return nil, false
	}
	obj := fr.Info.Uses[id]
	if obj == nil || obj != okObj {
		return nil, false
	}
	if len(is.Body.List) == 0 {
		return nil, false
	}
	switch last := is.Body.List[len(is.Body.List)-1].(type) {
	case *ast.ReturnStmt:
		return is, true
	case *ast.BranchStmt:
		if last.Tok == token.BREAK {
			return is, true
		}
	}
	return nil, false
}

func lhsObj(fr *Frame, e ast.Expr) types.Object {
	id, ok := e.(*ast.Ident)
	if !ok || id.Name == "_" {
		return nil
	}
	if o := fr.Info.Defs[id]; o != nil {
		return o
	}
	return fr.Info.Uses[id]
}

// stageRecvUnit handles, at the top level of a stage body, a checked receive
// followed by `if !ok { return }`: the rest of the body is gated on the
// channel having an element.
func (it *Interp) stageRecvUnit(fr *Frame, list []ast.Stmt, i int) (int, ctl, bool) {
	a, ok := list[i].(*ast.AssignStmt)
	if !ok || len(a.Lhs) != 2 || len(a.Rhs) != 1 {
		return 0, ctlNone, false
	}
	u, ok := a.Rhs[0].(*ast.UnaryExpr)
	if !ok || u.Op != token.ARROW {
		return 0, ctlNone, false
	}
	okObj := lhsObj(fr, a.Lhs[1])
	if okObj == nil || i+1 >= len(list) {
		return 0, ctlNone, false
	}
	is, ok := okCheck(fr, list[i+1], okObj)
	if !ok {
		return 0, ctlNone, false
	}
	st := fr.Stage
	ss := it.state(st)
	v := it.eval(fr, u.X)
	s, isS := v.(*Stream)
	if !isS {
		it.undecided(u.Pos(), "receive from a non-stream value "+showVal(v))
		return 2, ctlNone, true
	}
	// the failure branch may only drain and leave
	for _, fs := range is.Body.List[:len(is.Body.List)-1] {
		if !it.isDrainCall(fr, fs) {
			it.undecided(fs.Pos(), "statement in a receive-failure branch other than Drain")
		}
	}
	it.stageIn(st, s, true, false, u.Pos())
	rem := it.rem(s)
	lead := s.Lead
	if lead == nil {
		lead = lin.C(0)
	}
	it.bumpDep(ss, lin.Add(lead, s.Consumed))
	take := lin.Min(lin.C(1), rem)
	s.Consumed = lin.Simplify(it.G, lin.Add(s.Consumed, it.gated(ss, take)))
	ss.gates = append(ss.gates, lin.Simplify(it.G, take))
	it.assignTo(fr, a.Lhs[0], ElemV{Deps: []*Stream{s}}, a.Tok == token.DEFINE)
	it.assignTo(fr, a.Lhs[1], BoolV{Known: true, Val: true}, a.Tok == token.DEFINE)
	return 2, ctlNone, true
}

func (it *Interp) isDrainCall(fr *Frame, s ast.Stmt) bool {
	_, ok := it.drainTarget(fr, s)
	return ok
}

// drainTarget resolves `Drain(x)` / `helper.Drain(x)` to the stream x.
func (it *Interp) drainTarget(fr *Frame, s ast.Stmt) (*Stream, bool) {
	es, ok := s.(*ast.ExprStmt)
	if !ok {
		return nil, false
	}
	call, ok := es.X.(*ast.CallExpr)
	if !ok || len(call.Args) != 1 {
		return nil, false
	}
	fv := it.eval(fr, call.Fun)
	ref, ok := fv.(*FuncRef)
	if !ok || ref.Fn == nil {
		return nil, false
	}
	if load.FuncName(ref.Fn) != "helper.Drain" {
		return nil, false
	}
	v := it.eval(fr, call.Args[0])
	st, ok := v.(*Stream)
	return st, ok
}

func (it *Interp) stageOpaqueIf(fr *Frame, x *ast.IfStmt) ctl {
	if containsChanOp(x) || it.callsWithChan(fr, x) {
		it.undecided(x.Pos(), "data-dependent branch around channel operations: "+types.ExprString(x.Cond))
		return ctlNone
	}
	it.havoc(fr, x)
	return ctlNone
}

// ---------------------------------------------------------------------------
// Loops.

type loopItem struct {
	homog   bool   // the stream stands for a symbolic number of siblings
	kind    string // "recv", "send", "put", "get"
	s       *Stream
	checked bool
	drains  []*Stream
	send    *ast.SendStmt
	cond    string // "", "pred", "ringfull", "branch"
	ring    *Object
	pos     token.Pos
	fr      *Frame
	multE   *lin.Expr
	out     *Stream
}

type loopCtx struct {
	homog  int // >0 while scanning the body of a range over a slice of symbolic length
	items  []*loopItem
	ok     bool
	lastOk types.Object
	fr     *Frame
}

// stageLoop summarises `for v := range c { body }`.
func (it *Interp) stageLoop(fr *Frame, bound *lin.Expr, first *Stream, key ast.Expr, body *ast.BlockStmt, pos token.Pos, define bool) {
	lc := &loopCtx{ok: true, fr: fr}
	if first != nil {
		lc.items = append(lc.items, &loopItem{kind: "recv", s: first, checked: true, pos: pos, fr: fr})
		if key != nil {
			it.assignTo(fr, key, ElemV{Deps: []*Stream{first}}, define)
		}
	}
	it.scanLoop(fr, body.List, lc)
	it.finishLoop(fr, bound, lc, pos)
}

func (it *Interp) stageFor(fr *Frame, x *ast.ForStmt) {
	var bound *lin.Expr
	// counted loop: for i := 0; i < K; i++
	if x.Init != nil {
		it.exec(fr, x.Init)
	}
	if x.Cond != nil {
		if be, ok := x.Cond.(*ast.BinaryExpr); ok && (be.Op == token.LSS || be.Op == token.LEQ) && x.Post != nil {
			lo := it.eval(fr, be.X)
			hi := it.eval(fr, be.Y)
			li, ok1 := lo.(IntV)
			hv, ok2 := hi.(IntV)
			inc, isInc := x.Post.(*ast.IncDecStmt)
			if ok1 && ok2 && isInc && inc.Tok == token.INC {
				d := lin.Sub(hv.E, li.E)
				if be.Op == token.LEQ {
					d = lin.AddC(d, 1)
				}
				bound = lin.Simplify(it.G, lin.Pos(d))
			}
		}
		if bound == nil {
			// for !ring.IsEmpty()
			if un, ok := x.Cond.(*ast.UnaryExpr); ok && un.Op == token.NOT {
				if call, ok := un.X.(*ast.CallExpr); ok {
					if sel, ok := call.Fun.(*ast.SelectorExpr); ok && sel.Sel.Name == "IsEmpty" {
						if o, ok := it.eval(fr, sel.X).(*Object); ok && o.Ring != nil {
							occ := lin.Sub(lin.Min(o.Ring.Puts, o.Ring.Size), o.Ring.Gets)
							bound = lin.Pos(occ)
							lc := &loopCtx{ok: true, fr: fr}
							it.scanLoop(fr, x.Body.List, lc)
							gets := 0
							for _, i := range lc.items {
								if i.kind == "get" && i.ring == o {
									gets++
								}
							}
							if gets != 1 {
								it.undecided(x.Pos(), "ring drain loop must Get exactly once per iteration")
							}
							it.finishLoop(fr, bound, lc, x.Pos())
							return
						}
					}
				}
			}
		}
		if bound == nil {
			it.undecided(x.Pos(), "loop condition outside the counted/receive schemas: "+types.ExprString(x.Cond))
			return
		}
	}
	// the loop variable is loop-variant
	if x.Init != nil {
		it.havoc(fr, x.Init)
		if as, ok := x.Init.(*ast.AssignStmt); ok {
			for _, l := range as.Lhs {
				it.assignTo(fr, l, Opaque{Why: "loop counter"}, false)
			}
		}
	}
	lc := &loopCtx{ok: true, fr: fr}
	it.scanLoop(fr, x.Body.List, lc)
	it.finishLoop(fr, bound, lc, x.Pos())
}

// scanLoop collects the channel events of one iteration.
func (it *Interp) scanLoop(fr *Frame, list []ast.Stmt, lc *loopCtx) {
	st := fr.Stage
	for i := 0; i < len(list); i++ {
		s := list[i]
		switch x := s.(type) {
		case *ast.AssignStmt:
			if len(x.Rhs) == 1 {
				if u, ok := x.Rhs[0].(*ast.UnaryExpr); ok && u.Op == token.ARROW {
					v := it.eval(fr, u.X)
					str, isS := v.(*Stream)
					if !isS {
						it.undecided(x.Pos(), "receive from a non-stream value "+showVal(v))
						continue
					}
					item := &loopItem{kind: "recv", s: str, pos: x.Pos(), fr: fr, homog: lc.homog > 0 || str.Homog}
					if len(x.Lhs) == 2 {
						okObj := lhsObj(fr, x.Lhs[1])
						if okObj != nil && i+1 < len(list) {
							if is, ok := okCheck(fr, list[i+1], okObj); ok {
								item.checked = true
								for _, fs := range is.Body.List[:len(is.Body.List)-1] {
									if d, ok := it.drainTarget(fr, fs); ok {
										item.drains = append(item.drains, d)
									} else {
										it.undecided(fs.Pos(), "statement in a receive-failure branch other than Drain")
									}
								}
								i++
							}
						}
						it.assignTo(fr, x.Lhs[1], BoolV{}, x.Tok == token.DEFINE)
					}
					it.assignTo(fr, x.Lhs[0], ElemV{Deps: []*Stream{str}}, x.Tok == token.DEFINE)
					lc.items = append(lc.items, item)
					continue
				}
				// call that receives (CountActions)
				if call, ok := x.Rhs[0].(*ast.CallExpr); ok && it.callsWithChan(fr, call) {
					if it.scanCall(fr, call, lc) {
						for _, l := range x.Lhs {
							it.assignTo(fr, l, Opaque{Why: "result of receiving call"}, x.Tok == token.DEFINE)
						}
						if len(x.Lhs) > 0 {
							lc.lastOk = lhsObj(fr, x.Lhs[len(x.Lhs)-1])
						}
						continue
					}
				}
			}
			if containsChanOp(x) {
				it.undecided(x.Pos(), "channel operation inside an expression in a loop body")
				continue
			}
			it.noteClosures(fr, st, x)
			it.loopAssign(fr, x, lc)
		case *ast.SendStmt:
			cv := it.eval(fr, x.Chan)
			o, ok := cv.(*Stream)
			if !ok {
				it.undecided(x.Pos(), "send on a non-stream value "+showVal(cv))
				continue
			}
			lc.items = append(lc.items, &loopItem{kind: "send", send: x, out: o, pos: x.Pos(), fr: fr})
		case *ast.IfStmt:
			if lc.lastOk != nil {
				if _, ok := okCheck(fr, x, lc.lastOk); ok {
					lc.lastOk = nil
					continue
				}
			}
			if !containsChanOp(x) && !it.callsWithChan(fr, x) {
				if hasBranch(x) {
					it.undecided(x.Pos(), "data-dependent loop exit")
					continue
				}
				it.noteClosures(fr, st, x)
				it.havoc(fr, x)
				continue
			}
			it.scanIf(fr, x, lc)
		case *ast.RangeStmt:
			if !containsChanOp(x) && !it.callsWithChan(fr, x) {
				it.havoc(fr, x)
				continue
			}
			coll := it.eval(fr, x.X)
			sl, ok := coll.(*Slice)
			if !ok {
				it.undecided(x.Pos(), "nested range with channel operations over "+showVal(coll))
				continue
			}
			bind := func(el *Cell) {
				if id, ok := x.Value.(*ast.Ident); ok && id.Name != "_" {
					if obj := fr.Info.Defs[id]; obj != nil {
						fr.Env.vars[obj] = &Cell{V: el.V}
					}
				}
				if id, ok := x.Key.(*ast.Ident); ok && id.Name != "_" {
					if obj := fr.Info.Defs[id]; obj != nil {
						fr.Env.vars[obj] = &Cell{V: Opaque{Why: "index"}}
					}
				}
			}
			if sl.Homog {
				bind(sl.Rep)
				lc.homog++
				it.scanLoop(fr, x.Body.List, lc)
				lc.homog--
			} else {
				for _, el := range sl.Elems {
					bind(el)
					it.scanLoop(fr, x.Body.List, lc)
				}
			}
		case *ast.ForStmt:
			if containsChanOp(x) || it.callsWithChan(fr, x) {
				// nested counted loop of sends (Echo)
				it.scanNestedFor(fr, x, lc)
				continue
			}
			it.havoc(fr, x)
		case *ast.ExprStmt:
			if call, ok := x.X.(*ast.CallExpr); ok {
				if sel, ok := call.Fun.(*ast.SelectorExpr); ok {
					if o, ok := it.eval(fr, sel.X).(*Object); ok && o.Ring != nil {
						switch sel.Sel.Name {
						case "Put":
							lc.items = append(lc.items, &loopItem{kind: "put", ring: o, pos: x.Pos(), fr: fr})
						case "Get":
							lc.items = append(lc.items, &loopItem{kind: "get", ring: o, pos: x.Pos(), fr: fr})
						}
						continue
					}
				}
				if it.callsWithChan(fr, call) {
					if !it.scanCall(fr, call, lc) {
						it.undecided(x.Pos(), "call with channel arguments inside a loop body: "+calleeDisplay(call.Fun))
					}
					continue
				}
			}
			if containsChanOp(x) {
				it.undecided(x.Pos(), "channel operation inside an expression in a loop body")
				continue
			}
			it.noteClosures(fr, st, x)
		case *ast.DeclStmt:
			it.exec(fr, x)
		case *ast.IncDecStmt:
			it.havoc(fr, x)
		case *ast.SwitchStmt:
			if containsChanOp(x) {
				it.scanSwitch(fr, x, lc)
				continue
			}
			it.havoc(fr, x)
		case *ast.BlockStmt:
			it.scanLoop(fr, x.List, lc)
		case *ast.ReturnStmt:
			// only reached inside inlined callees (normal return of CountActions)
		case *ast.BranchStmt:
			it.undecided(x.Pos(), "unconditional break/continue in a loop body")
		default:
			if containsChanOp(s) {
				it.undecided(s.Pos(), fmt.Sprintf("unsupported statement %T with channel operations in a loop body", s))
			}
		}
	}
}

func hasBranch(n ast.Node) bool {
	found := false
	ast.Inspect(n, func(m ast.Node) bool {
		switch y := m.(type) {
		case *ast.BranchStmt:
			if y.Tok == token.BREAK || y.Tok == token.GOTO {
				found = true
			}
		case *ast.ReturnStmt:
			found = true
		case *ast.FuncLit, *ast.ForStmt, *ast.RangeStmt:
			if _, isLit := y.(*ast.FuncLit); isLit {
				return false
			}
			// a break inside a nested loop leaves that loop only; a return still leaves
			r := false
			ast.Inspect(y, func(k ast.Node) bool {
				if _, ok := k.(*ast.ReturnStmt); ok {
					r = true
				}
				if _, ok := k.(*ast.FuncLit); ok {
					return false
				}
				return !r
			})
			if r {
				found = true
			}
			return false
		}
		return !found
	})
	return found
}

// loopAssign treats an assignment in a loop body as loop-variant, keeping element provenance.
func (it *Interp) loopAssign(fr *Frame, x *ast.AssignStmt, cur *loopCtx) {
	// Ring.Put used as an expression: sum -= ring.Put(n)
	for _, r := range x.Rhs {
		ast.Inspect(r, func(n ast.Node) bool {
			if call, ok := n.(*ast.CallExpr); ok {
				if sel, ok := call.Fun.(*ast.SelectorExpr); ok && (sel.Sel.Name == "Put" || sel.Sel.Name == "Get") {
					if o, ok := it.eval(fr, sel.X).(*Object); ok && o.Ring != nil {
						kind := "put"
						if sel.Sel.Name == "Get" {
							kind = "get"
						}
						if cur != nil {
							cur.items = append(cur.items, &loopItem{kind: kind, ring: o, pos: call.Pos(), fr: fr})
						}
					}
				}
			}
			if _, ok := n.(*ast.FuncLit); ok {
				return false
			}
			return true
		})
	}
	var deps []Value
	for _, r := range x.Rhs {
		ast.Inspect(r, func(n ast.Node) bool {
			if id, ok := n.(*ast.Ident); ok {
				if obj := fr.Info.Uses[id]; obj != nil {
					if c := fr.Env.Lookup(obj); c != nil {
						if e, ok := c.V.(ElemV); ok {
							deps = append(deps, e)
						}
					}
				}
			}
			return true
		})
	}
	v0 := Value(Opaque{Why: "loop-variant"})
	if len(deps) > 0 {
		v0 = mergeElem(deps...)
	}
	for li, l := range x.Lhs {
		v := v0
		if id, ok := l.(*ast.Ident); ok && id.Name != "_" {
			if ev, ok := v.(ElemV); ok {
				if len(x.Lhs) == len(x.Rhs) && (x.Tok == token.DEFINE || x.Tok == token.ASSIGN) {
					ev.Def, ev.Fr = x.Rhs[li], fr
				}
				if x.Tok == token.DEFINE && fr.Info.Defs[id] != nil {
					ev.Obj = fr.Info.Defs[id]
				}
				if x.Tok != token.DEFINE || fr.Info.Defs[id] == nil {
					// assigned, not declared, here: earlier statements of the body see the previous iteration's value
					ev.Carried = true
					if obj := fr.Info.Uses[id]; obj != nil {
						ev.Self = obj
						if c := fr.Env.Lookup(obj); c != nil {
							if old, isElem := c.V.(ElemV); isElem {
								ev.Init = old.Init
							} else {
								ev.Init = c.V
							}
						}
					}
				}
				v = ev
			}
			if x.Tok == token.DEFINE {
				if obj := fr.Info.Defs[id]; obj != nil {
					fr.Env.Define(obj, v)
					continue
				}
			}
			if obj := fr.Info.Uses[id]; obj != nil {
				if c := fr.Env.Lookup(obj); c != nil {
					switch cv := c.V.(type) {
					case *Stream, *Object, *Closure:
						it.undecided(x.Pos(), "loop body reassigns "+id.Name)
					case *Slice:
						if len(StreamsOf(cv)) > 0 {
							it.undecided(x.Pos(), "loop body reassigns "+id.Name)
						} else {
							c.V = Opaque{Why: "slice built in a loop"}
						}
					default:
						c.V = v
					}
				}
			}
		}
	}
}

// scanIf handles branches containing sends.
func (it *Interp) scanIf(fr *Frame, x *ast.IfStmt, lc *loopCtx) {
	st := fr.Stage
	it.noteClosures(fr, st, x.Cond)
	// collect the sends of every branch of the chain
	type branch struct {
		items []*loopItem
	}
	var branches []branch
	hasElse := false
	var cur ast.Stmt = x
	okShape := true
	for cur != nil {
		switch b := cur.(type) {
		case *ast.IfStmt:
			sub := &loopCtx{ok: true, fr: fr}
			it.scanLoop(fr, b.Body.List, sub)
			branches = append(branches, branch{sub.items})
			cur = b.Else
		case *ast.BlockStmt:
			sub := &loopCtx{ok: true, fr: fr}
			it.scanLoop(fr, b.List, sub)
			branches = append(branches, branch{sub.items})
			hasElse = true
			cur = nil
		default:
			okShape = false
			cur = nil
		}
	}
	if !okShape {
		it.undecided(x.Pos(), "unsupported branch shape with channel operations")
		return
	}
	sig := func(items []*loopItem) string {
		m := map[int]int{}
		bad := false
		for _, i := range items {
			switch i.kind {
			case "send":
				if i.out == nil {
					bad = true
				} else {
					m[i.out.ID]++
				}
			case "recv":
				bad = true
			}
		}
		if bad {
			return "!"
		}
		return fmt.Sprint(m)
	}
	if hasElse {
		s0 := sig(branches[0].items)
		same := s0 != "!"
		for _, b := range branches[1:] {
			if sig(b.items) != s0 {
				same = false
			}
		}
		if same {
			for _, i := range branches[0].items {
				if i.kind == "send" {
					i.cond = "branch"
				}
				lc.items = append(lc.items, i)
			}
			// the other branches' sends are alternatives of the same events; keep them for value analyses
			for _, b := range branches[1:] {
				for _, i := range b.items {
					if i.kind == "send" {
						st.Sends = append(st.Sends, &SendInfo{Out: nil, Expr: i.send.Value, Frame: i.fr, Cond: "branch-alt", InLoop: true, Pos: i.pos})
					}
				}
			}
			return
		}
		it.undecided(x.Pos(), "branches send different numbers of elements")
		return
	}
	if len(branches) != 1 {
		it.undecided(x.Pos(), "else-if chain without a final else around sends")
		return
	}
	cond := "pred"
	var ring *Object
	if call, ok := x.Cond.(*ast.CallExpr); ok {
		if sel, ok := call.Fun.(*ast.SelectorExpr); ok && sel.Sel.Name == "IsFull" {
			if o, ok := it.eval(fr, sel.X).(*Object); ok && o.Ring != nil {
				cond = "ringfull"
				ring = o
			}
		}
	}
	for _, i := range branches[0].items {
		switch i.kind {
		case "send":
			i.cond = cond
			i.ring = ring
			lc.items = append(lc.items, i)
		case "recv":
			it.undecided(i.pos, "conditional receive")
		default:
			lc.items = append(lc.items, i)
		}
	}
}

func (it *Interp) scanSwitch(fr *Frame, x *ast.SwitchStmt, lc *loopCtx) {
	it.undecided(x.Pos(), "switch with channel operations in a loop body")
}

// scanNestedFor handles `for i := 0; i < K; i++ { sends }` nested in a loop.
func (it *Interp) scanNestedFor(fr *Frame, x *ast.ForStmt, lc *loopCtx) {
	var bound *lin.Expr
	if x.Init != nil {
		it.exec(fr, x.Init)
	}
	if be, ok := x.Cond.(*ast.BinaryExpr); ok && be.Op == token.LSS && x.Post != nil {
		li, ok1 := it.eval(fr, be.X).(IntV)
		hv, ok2 := it.eval(fr, be.Y).(IntV)
		inc, isInc := x.Post.(*ast.IncDecStmt)
		if ok1 && ok2 && isInc && inc.Tok == token.INC {
			bound = lin.Simplify(it.G, lin.Pos(lin.Sub(hv.E, li.E)))
		}
	}
	if bound == nil {
		it.undecided(x.Pos(), "nested loop outside the counted schema")
		return
	}
	if x.Init != nil {
		if as, ok := x.Init.(*ast.AssignStmt); ok {
			for _, l := range as.Lhs {
				it.assignTo(fr, l, Opaque{Why: "loop counter"}, false)
			}
		}
	}
	sub := &loopCtx{ok: true, fr: fr}
	it.scanLoop(fr, x.Body.List, sub)
	for _, i := range sub.items {
		if i.kind != "send" {
			it.undecided(i.pos, "nested counted loop may only send")
			continue
		}
		if i.multE == nil {
			i.multE = bound
		} else {
			i.multE = it.mulExpr(i.multE, bound)
		}
		lc.items = append(lc.items, i)
	}
}

// mulExpr multiplies two non-negative counts; a product of two symbolic
// counts becomes an opaque symbol.
func (it *Interp) mulExpr(a, b *lin.Expr) *lin.Expr {
	if a.IsLin() && a.T.IsConst() {
		return lin.Scale(b, a.T.C)
	}
	if b.IsLin() && b.T.IsConst() {
		return lin.Scale(a, b.T.C)
	}
	x, y := a.String(), b.String()
	if x > y {
		x, y = y, x
	}
	return it.Sym("mul(" + x + "," + y + ")")
}

// scanCall inlines a module function that receives from channels passed to it
// (CountActions): its receives become receives of the enclosing iteration and
// its failure returns become loop exits.
func (it *Interp) scanCall(fr *Frame, call *ast.CallExpr, lc *loopCtx) bool {
	fv := it.eval(fr, call.Fun)
	ref, ok := fv.(*FuncRef)
	if !ok || ref.Fn == nil {
		return false
	}
	fi := it.Prog.Info(ref.Fn)
	if fi == nil || fi.Decl.Body == nil {
		return false
	}
	if load.FuncName(fi.Fn) == "helper.Drain" {
		return false
	}
	args := it.evalArgs(fr, call)
	sig := fi.Fn.Type().(*types.Signature)
	nf := &Frame{Fn: fi.Fn, FnName: load.FuncName(fi.Fn), Info: fi.Pkg.TypesInfo, PkgPath: fi.Pkg.PkgPath, Env: NewEnv(nil), Recv: ref.Recv, Parent: fr, Call: call, Depth: fr.Depth + 1, Stage: fr.Stage, Decl: fi.Decl}
	for i := 0; i < sig.Params().Len(); i++ {
		var v Value = Opaque{Why: "missing arg"}
		if i < len(args) {
			v = args[i]
		}
		nf.Env.Define(sig.Params().At(i), v)
	}
	for _, s := range fi.Decl.Body.List {
		if ds, ok := s.(*ast.DeclStmt); ok {
			it.exec(nf, ds)
		}
	}
	it.scanLoop(nf, fi.Decl.Body.List, lc)
	return true
}

// finishLoop turns the collected events into counts.
func (it *Interp) finishLoop(fr *Frame, bound *lin.Expr, lc *loopCtx, pos token.Pos) {
	st := fr.Stage
	ss := it.state(st)
	// iteration count
	var t *lin.Expr
	if bound != nil {
		t = bound
	}
	seen := map[*Stream]int{}
	nrecv := 0
	for _, i := range lc.items {
		if i.kind != "recv" {
			continue
		}
		nrecv++
		seen[i.s]++
		if seen[i.s] > 1 && !i.s.Homog {
			it.undecided(i.pos, "stream received more than once per iteration: "+i.s.String())
		}
		if i.checked {
			r := it.rem(i.s)
			if t == nil {
				t = r
			} else {
				t = lin.Min(t, r)
			}
		}
	}
	nsend := 0
	for _, i := range lc.items {
		if i.kind == "send" {
			nsend++
		}
	}
	if t == nil {
		if nsend > 0 || nrecv > 0 {
			it.undecided(pos, "loop without a counted bound or a checked receive")
		}
		return
	}
	t = lin.Simplify(it.G, t)
	// ring bookkeeping
	ringPuts := map[*Object]int{}
	ringGets := map[*Object]int{}
	for _, i := range lc.items {
		switch i.kind {
		case "put":
			ringPuts[i.ring]++
		case "get":
			ringGets[i.ring]++
		}
	}
	// exits
	var exits []*ExitPath
	if bound != nil {
		exits = append(exits, &ExitPath{Kind: "bound"})
	}
	for _, i := range lc.items {
		if i.kind == "recv" && i.checked {
			exits = append(exits, &ExitPath{Closed: i.s, Drains: i.drains, Kind: "closed"})
			if len(i.drains) > 0 {
				ss.drains++
			}
		}
	}
	st.Exits = append(st.Exits, exits...)
	// receives
	var loopLead *lin.Expr
	for _, i := range lc.items {
		if i.kind != "recv" {
			continue
		}
		in := it.stageIn(st, i.s, i.checked, true, i.pos)
		{
			lead := i.s.Lead
			if lead == nil {
				lead = lin.C(0)
			}
			in.LeadAt = lin.Simplify(it.G, lin.Add(lead, i.s.Consumed))
		}
		if loopLead == nil {
			loopLead = in.LeadAt
		} else {
			loopLead = lin.Max(loopLead, in.LeadAt)
		}
		if !i.checked {
			it.res.Phantoms = append(it.res.Phantoms, Phantom{Stage: st, S: i.s, Pos: i.pos, Need: it.gated(ss, t), Have: it.rem(i.s), Sent: nsend > 0})
		}
	}
	for _, i := range lc.items {
		if i.kind != "recv" {
			continue
		}
		full := true
		for _, e := range exits {
			if e.Closed == i.s {
				if i.homog {
					// the stream stands for several siblings: when one closes the others are
					// drained only if the failure branch drains them
					d := false
					for _, x := range e.Drains {
						if x == i.s {
							d = true
						}
					}
					if !d {
						full = false
					}
				}
				continue
			}
			d := false
			for _, x := range e.Drains {
				if x == i.s {
					d = true
				}
			}
			if !d {
				full = false
			}
		}
		if in := ss.ins[i.s]; in != nil {
			in.Partial = !full
			if i.homog {
				in.Homog = true
			}
		}
		if full && i.checked {
			i.s.Consumed = lin.Simplify(it.G, lin.Add(i.s.Consumed, it.gated(ss, it.rem(i.s))))
		} else {
			i.s.Consumed = lin.Simplify(it.G, lin.Add(i.s.Consumed, it.gated(ss, lin.Min(t, it.rem(i.s)))))
		}
	}
	// sends
	for _, i := range lc.items {
		if i.kind != "send" {
			continue
		}
		o := i.out
		it.noteClosures(i.fr, st, i.send.Value)
		st.Sends = append(st.Sends, &SendInfo{Out: o, Expr: i.send.Value, Frame: i.fr, Cond: i.cond, InLoop: true, Pos: i.pos, Steady: nrecv > 0})
		it.noteOut(st, o)
		before := ss.sent[o]
		count := t
		if i.multE != nil {
			count = it.mulExpr(t, i.multE)
		}
		shift := lin.C(0)
		switch i.cond {
		case "ringfull":
			r := i.ring.Ring
			if ringPuts[i.ring] != 1 || ringGets[i.ring] != 0 || !lin.ProveEQ(it.G, r.Puts, lin.C(0)) {
				it.undecided(i.pos, "ring-full guarded send outside the one-Put-per-iteration schema")
			}
			shift = lin.Pos(lin.AddC(r.Size, -1))
			count = lin.Pos(lin.Sub(t, shift))
		case "pred":
			ss.filterN++
			sym := it.Sym(fmt.Sprintf("filter#%d.%d", st.ID, ss.filterN))
			if t.IsLin() {
				it.G.Cs = append(it.G.Cs, t.T.Sub(sym.T))
			}
			count = sym
		}
		ss.sent[o] = lin.Simplify(it.G, lin.Add(before, it.gated(ss, count)))
		if loopLead != nil {
			it.bumpLead(ss, o, lin.Sub(lin.Add(loopLead, shift), before))
		}
		if ss.depLead != nil {
			it.bumpLead(ss, o, lin.Sub(ss.depLead, before))
		}
		// elements computed from fill values of an input (fill-tainted prefix)
		for _, ri := range lc.items {
			if ri.kind != "recv" || ri.s.Taint == nil {
				continue
			}
			in := ss.ins[ri.s]
			consBefore := lin.C(0)
			if in != nil && in.LeadAt != nil && ri.s.Lead != nil {
				consBefore = lin.Sub(in.LeadAt, ri.s.Lead)
			}
			d := lin.Simplify(it.G, lin.Sub(ri.s.Taint, consBefore))
			cand := When(d, 1, lin.Add(before, d), lin.C(0))
			if o.Taint == nil {
				o.Taint = cand
			} else {
				o.Taint = lin.Max(o.Taint, cand)
			}
			o.Taint = lin.Simplify(it.G, o.Taint)
		}
		// a counted loop of sends of a constant before anything else is a fill prefix
		if nrecv == 0 && bound != nil && lin.ProveEQ(it.G, before, lin.C(0)) {
			fv := it.eval(i.fr, i.send.Value)
			o.FillN = count
			o.Taint = count
			o.FillExpr = types.ExprString(i.send.Value)
			switch v := fv.(type) {
			case ConstV:
				if v.Name == "strategy.Hold" {
					o.FillK = FillHold
				} else {
					o.FillK = FillOther
					o.FillExpr = v.Name
				}
			case IntV:
				if v.E.IsLin() && v.E.T.IsConst() && v.E.T.C == 0 {
					o.FillK = FillZero
				} else {
					o.FillK = FillOther
				}
			case NumV:
				if v.Lit == "0" || v.Lit == "0.0" {
					o.FillK = FillZero
				} else {
					o.FillK = FillOther
				}
			default:
				o.FillK = FillOther
			}
		}
	}
	// rings
	for r, k := range ringPuts {
		// the scan itself did not touch the counters
		r.Ring.Puts = lin.Simplify(it.G, lin.Add(r.Ring.Puts, lin.Scale(it.gated(ss, t), int64(k))))
	}
	for r, k := range ringGets {
		r.Ring.Gets = lin.Simplify(it.G, lin.Add(r.Ring.Gets, lin.Scale(it.gated(ss, t), int64(k))))
	}
	// what later statements may depend on
	for _, i := range lc.items {
		if i.kind == "recv" {
			lead := i.s.Lead
			if lead == nil {
				lead = lin.C(0)
			}
			it.bumpDep(ss, lin.AddC(lin.Add(lead, i.s.Consumed), -1))
		}
	}
}
