package shape

import (
	"fmt"
	"go/types"
	"io"
	"sort"
	"strings"
	"verif/checker/internal/lin"

	"verif/checker/internal/load"
)

func es(e interface{ String() string }) string {
	if e == nil {
		return "-"
	}
	return e.String()
}

// Dump prints a result for debugging.
func Dump(w io.Writer, p *load.Program, r *Result) {
	fmt.Fprintf(w, "== %s  path=[%s]\n", r.RootName, strings.Join(r.PathConds, " ; "))
	for _, s := range r.Streams {
		prod := "-"
		if s.Producer != nil {
			prod = fmt.Sprintf("st%d", s.Producer.ID)
		}
		var rd []string
		for _, x := range s.Readers {
			if x.Stage != nil {
				rd = append(rd, fmt.Sprintf("st%d", x.Stage.ID))
			} else {
				rd = append(rd, x.Kind)
			}
		}
		ln, ld, cp := "-", "-", "-"
		if s.Len != nil {
			ln = s.Len.String()
		}
		if s.Lead != nil {
			ld = s.Lead.String()
		}
		if s.Cap != nil {
			cp = s.Cap.String()
		}
		fill := ""
		if s.FillN != nil {
			fill = fmt.Sprintf(" fill=%s×%d(%s)", s.FillN.String(), s.FillK, s.FillExpr)
		}
		flags := ""
		if s.Pending {
			flags += " PENDING"
		}
		if s.Returned {
			flags += " ret"
		}
		if !s.Closed && s.Param == "" {
			flags += " !closed"
		}
		fmt.Fprintf(w, "  %-22s len=%-34s lead=%-22s cap=%-10s prod=%-5s rd=%v%s%s @%s\n", s.String(), ln, ld, cp, prod, rd, fill, flags, p.Pos(s.Pos))
	}
	for _, st := range r.Stages {
		var ins, outs []string
		for _, in := range st.Ins {
			ins = append(ins, fmt.Sprintf("%s@%s%s", in.S.String(), es(in.LeadAt), map[bool]string{true: "", false: "(unchecked)"}[in.Checked]))
		}
		for _, o := range st.Outs {
			outs = append(outs, o.String())
		}
		own := "?"
		if st.Owner != nil {
			own = st.Owner.FnName
		}
		fmt.Fprintf(w, "  st%-3d %-8s %-28s owner=%s/%s ins=%v outs=%v dbc=%v\n", st.ID, st.Kind, st.FnName, own, st.Construct, ins, outs, st.DrainBeforeClose)
	}
	for _, u := range r.Undecided {
		fmt.Fprintf(w, "  UNDECIDED %s: %s\n", p.Pos(u.Pos), u.Why)
	}
	for _, ph := range r.Phantoms {
		fmt.Fprintf(w, "  UNCHECKED-RECV %s stream=%s need=%s have=%s\n", p.Pos(ph.Pos), ph.S.String(), ph.Need.String(), ph.Have.String())
	}
	fmt.Fprintf(w, "  ret=%s\n", showVal(r.Ret))
	for _, n := range r.Notes {
		fmt.Fprintf(w, "  note: %s\n", n)
	}
	fmt.Fprintf(w, "  Γ: %s\n", strings.Join(r.G.Strings(), "; "))
}

func ShowVal(v Value) string { return showVal(v) }

// PipelineRoots lists every declared function of the module that takes or
// returns a channel, in a deterministic order.
func PipelineRoots(p *load.Program) []*load.FuncInfo {
	var out []*load.FuncInfo
	for _, fi := range p.Decls {
		if fi.Decl.Body == nil {
			continue
		}
		if strings.HasSuffix(p.Fset.Position(fi.Decl.Pos()).Filename, "_test.go") {
			continue
		}
		sig := fi.Fn.Type().(*types.Signature)
		has := false
		for i := 0; i < sig.Params().Len(); i++ {
			if hasChan(sig.Params().At(i).Type()) {
				has = true
			}
		}
		for i := 0; i < sig.Results().Len(); i++ {
			if hasChan(sig.Results().At(i).Type()) {
				has = true
			}
		}
		if fi.Fn.Name() == "Report" && sig.Recv() != nil {
			has = true
		}
		if has {
			out = append(out, fi)
		}
	}
	sort.Slice(out, func(i, j int) bool { return load.FuncName(out[i].Fn) < load.FuncName(out[j].Fn) })
	return out
}

func hasChan(t types.Type) bool {
	switch u := t.Underlying().(type) {
	case *types.Chan:
		return true
	case *types.Slice:
		return hasChan(u.Elem())
	}
	return false
}

func RetSummary(r *Result) string {
	var ss []*Stream
	collectStreams(r.Ret, &ss)
	var parts []string
	for _, s := range ss {
		parts = append(parts, fmt.Sprintf("{len=%s lead=%s}", es2(s.Len), es2(s.Lead)))
	}
	if o, ok := r.Ret.(*Object); ok {
		parts = append(parts, "obj:"+o.TypeName())
	}
	return strings.Join(parts, " ")
}

func es2(e *lin.Expr) string {
	if e == nil {
		return "-"
	}
	return e.String()
}

// StreamsOf lists the streams contained in a value, in order.
func StreamsOf(v Value) []*Stream {
	var ss []*Stream
	collectStreams(v, &ss)
	return ss
}

// SymResolver maps a symbol name to its expression.
func SymResolver(r *Result) func(string) *lin.Expr {
	return func(name string) *lin.Expr { return lin.V(lin.Sym(name)) }
}

// FieldOf returns the value stored in an object's field (nil when unset).
func FieldOf(o *Object, name string) Value {
	if o == nil {
		return nil
	}
	if c, ok := o.Fields[name]; ok {
		return c.V
	}
	return nil
}

// MarkConsumed records a consumer that is not a stage (the report template).
func MarkConsumed(s *Stream, kind string) {
	for _, r := range s.Readers {
		if r.Kind == kind {
			return
		}
	}
	s.Readers = append(s.Readers, &Read{Kind: kind, Drained: true, Consumed: s.Len})
}
