// Package shape is the stream-shape calculus (Engine A) and the stage
// summariser (Engine B): an abstract interpreter over the type-checked AST of
// pipeline builders. It never runs the library; it computes, for every channel
// a builder creates, its length, anchor, capacity and fill prefix as symbolic
// expressions of the input length n and the configuration symbols, and records
// the stage graph (who reads and writes which channel).
package shape

import (
	"fmt"
	"go/ast"
	"go/token"
	"go/types"
	"sort"
	"strings"

	"verif/checker/internal/lin"
	"verif/checker/internal/sym"
)

type Value interface{}

// IntV is a symbolic integer.
type IntV struct{ E *lin.Expr }

// NumV is a non-integer number (float configuration, literal, arithmetic on them).
type NumV struct {
	Lit  string   // literal text when it is one ("" otherwise)
	From string   // provenance for diagnostics
	Sym  sym.Expr // symbolic value over configuration symbols (nil when unknown)
}

// ConstV is a named constant of a non-numeric-int type (strategy.Hold, …) or an
// int-typed named constant of a defined type.
type ConstV struct {
	Obj  types.Object
	Name string
}

// StrV is a string constant (names of reports and columns).
type StrV struct{ S string }

// BoolV is a condition: Known with Val, or (Cond >= 0).
type BoolV struct {
	Known bool
	Val   bool
	Cond  *lin.Expr // true iff Cond >= 0 (nil when opaque)
}

type Opaque struct{ Why string }

type Tuple []Value

// Object is an indicator / strategy / helper object.
type Object struct {
	Type   types.Type // dynamic type (pointer stripped: *types.Named), nil if unknown
	Path   string     // access path from the analysed receiver ("" = the receiver); "<local>" objects carry their creation site
	Sym    bool       // fields not assigned are symbolic (receiver-rooted or parameter), else zero values
	Iface  bool       // only the interface is known
	Fields map[string]*Cell
	Ring   *RingState // helper.Ring typestate
	Site   string
}

type RingState struct {
	Size  *lin.Expr
	Puts  *lin.Expr
	Gets  *lin.Expr
	Valid bool
}

func (o *Object) TypeName() string {
	if o == nil || o.Type == nil {
		return "?"
	}
	t := o.Type
	if p, ok := t.(*types.Pointer); ok {
		t = p.Elem()
	}
	if n, ok := t.(*types.Named); ok {
		pk := ""
		if n.Obj().Pkg() != nil {
			pk = n.Obj().Pkg().Name() + "."
		}
		return pk + n.Obj().Name()
	}
	return t.String()
}

type Slice struct {
	Elems []*Cell // concrete elements
	Homog bool    // symbolic length: one representative element
	Rep   *Cell
	Len   *lin.Expr
}

type Cell struct{ V Value }

type Closure struct {
	Lit   *ast.FuncLit
	Env   *Env
	Frame *Frame // defining frame (package info, receiver)
}

// FuncRef is a reference to a declared function or method value.
type FuncRef struct {
	Fn   *types.Func
	Recv Value
}

// Env is a lexical environment.
type Env struct {
	vars   map[types.Object]*Cell
	parent *Env
}

func NewEnv(parent *Env) *Env { return &Env{vars: map[types.Object]*Cell{}, parent: parent} }

// Each visits every binding visible from e (inner scopes first).
func (e *Env) Each(f func(o types.Object, c *Cell)) {
	for s := e; s != nil; s = s.parent {
		for o, c := range s.vars {
			f(o, c)
		}
	}
}

func (e *Env) Lookup(o types.Object) *Cell {
	for s := e; s != nil; s = s.parent {
		if c, ok := s.vars[o]; ok {
			return c
		}
	}
	return nil
}

func (e *Env) Define(o types.Object, v Value) *Cell {
	c := &Cell{V: v}
	e.vars[o] = c
	return c
}

// ---------------------------------------------------------------------------
// Streams and stages.

type FillKind int

const (
	FillNone FillKind = iota
	FillHold
	FillZero
	FillOther
)

type PathInfo struct {
	Cap    *lin.Expr // sum of channel capacities since the fork
	Stages int       // goroutine stages since the fork
	Lead0  *lin.Expr // lead of the fork's source at the fork
	Idx    int       // which output of the fork this path started at (the fork serves its outputs in index order)
}

// IndCall records that a stream is output OutIdx of a sub-indicator's Compute applied to Args.
type IndCall struct {
	Obj    *Object
	OutIdx int
	Args   []*Stream
	Pos    token.Pos
}

type Stream struct {
	Ind      *IndCall
	ID       int
	Name     string
	Pos      token.Pos
	Elem     types.Type
	Len      *lin.Expr
	Lead     *lin.Expr
	Cap      *lin.Expr
	FillN    *lin.Expr // length of the constant prefix
	FillK    FillKind
	FillExpr string
	Taint    *lin.Expr // prefix of elements computed from fill values (>= FillN)
	Pending  bool      // created by make, not yet produced
	Param    string    // name of the source parameter if this is one
	Producer *Stage
	Readers  []*Read
	Closed   bool
	Returned bool
	Paths    map[int]*PathInfo
	Consumed *lin.Expr // elements consumed so far by summarised readers
	Homog    bool      // stands for a symbolic number of sibling streams
	OutParam bool      // a send-only channel parameter of the analysed root
	Unknown  bool      // shape could not be determined
	ForkID   int       // >0 for outputs of a fork
	ForkIdx  int
	Owner    *Frame
}

func (s *Stream) String() string {
	if s == nil {
		return "<nil stream>"
	}
	return fmt.Sprintf("s%d(%s)", s.ID, s.Name)
}

// Read records that a stage (or the builder) consumes from a stream.
type Read struct {
	Stage    *Stage
	Bounded  bool // reads a bounded prefix and does not drain (Head)
	Drained  bool
	Pos      token.Pos
	Kind     string // "range", "recv", "drain", "report", "return", "iface"
	Consumed *lin.Expr
}

type Stage struct {
	ID                int
	Kind              string // "go-lit", "go-call", "iface", "builder-recv"
	Fn                *types.Func
	FnName            string
	Pos               token.Pos
	Parent            *Stage
	Frame             *Frame
	Ins               []*StageIn
	Outs              []*Stream
	Closures          []*Closure
	Sends             []*SendInfo
	Owner             *Frame // frame that owns the construct (nearest non-wrapper)
	Construct         string // e.g. "helper.Subtract#1"
	DrainBeforeClose  bool   // drains inputs before closing its outputs
	HasDrainAfterLoop bool
	Exits             []*ExitPath
	Notes             []string
}

type StageIn struct {
	S        *Stream
	LeadAt   *lin.Expr // lead(S) + elements of S consumed before the steady-state loop
	Checked  bool
	Consumed *lin.Expr
	Drained  bool
	InLoop   bool
	Order    int
	Partial  bool // some exit leaves (a sibling of) this input undrained
	Homog    bool // received inside a loop over a slice of symbolic length
}

type SendInfo struct {
	Steady bool // sent once per element received in its loop (not a fill prefix)
	Out    *Stream
	Expr   ast.Expr
	Frame  *Frame
	Cond   string // "", "pred", "ringfull", "branch"
	InLoop bool
	Pos    token.Pos
}

type ExitPath struct {
	Closed *Stream   // the input whose closing triggers this exit (nil: bound reached / normal)
	Drains []*Stream // inputs explicitly drained on this path
	Kind   string
}

// Join is a stage reading more than one stream in its steady-state loop.
type Join struct {
	Stage *Stage
	Ins   []*StageIn
}

// Frame is an activation of a function body (inlined).
type Frame struct {
	Fn       *types.Func
	FnName   string
	Info     *types.Info
	PkgPath  string
	Env      *Env
	Recv     Value
	Parent   *Frame
	Call     *ast.CallExpr // call site in the parent
	Depth    int
	Stage    *Stage // non-nil when executing inside a goroutine body
	Defers   []func()
	Ret      Value
	Wrapper  bool
	callOrd  map[string]int
	Decl     *ast.FuncDecl
	Contract bool // outputs were overridden by a contract
}

// Report models *helper.Report.
type Report struct {
	Date    *Stream
	Columns []*Column
	Pos     token.Pos
}

type Column struct {
	Name string
	Kind string // "numeric", "annotation"
	S    *Stream
	Pos  token.Pos
}

// ---------------------------------------------------------------------------

func showVal(v Value) string {
	switch x := v.(type) {
	case nil:
		return "<nil>"
	case IntV:
		return x.E.String()
	case NumV:
		if x.Lit != "" {
			return x.Lit
		}
		return "num(" + x.From + ")"
	case ConstV:
		return x.Name
	case BoolV:
		if x.Known {
			return fmt.Sprint(x.Val)
		}
		if x.Cond != nil {
			return x.Cond.String() + " >= 0"
		}
		return "bool?"
	case Opaque:
		return "opaque(" + x.Why + ")"
	case *Object:
		return "obj(" + x.TypeName() + "@" + x.Path + ")"
	case *Stream:
		return x.String()
	case *Slice:
		if x.Homog {
			return "[]homog{" + showVal(x.Rep.V) + "}"
		}
		var parts []string
		for _, c := range x.Elems {
			parts = append(parts, showVal(c.V))
		}
		return "[" + strings.Join(parts, ", ") + "]"
	case Tuple:
		var parts []string
		for _, c := range x {
			parts = append(parts, showVal(c))
		}
		return "(" + strings.Join(parts, ", ") + ")"
	case *Closure:
		return "closure"
	case *FuncRef:
		return "func " + x.Fn.Name()
	case *Report:
		return "report"
	}
	return fmt.Sprintf("%T", v)
}

func sortedKeys[M ~map[K]V, K ~string, V any](m M) []K {
	r := make([]K, 0, len(m))
	for k := range m {
		r = append(r, k)
	}
	sort.Slice(r, func(i, j int) bool { return r[i] < r[j] })
	return r
}
