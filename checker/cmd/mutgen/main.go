// mutgen enumerates small syntactic mutations of the non-test Go files below a directory and
// prints one JSON object per mutation: {"file","offset","old","new","line","kind"}.
// It is a development tool (used to look for clauses no rule covers); no registered check uses it.
package main

import (
	"encoding/json"
	"fmt"
	"go/ast"
	"go/parser"
	"go/token"
	"os"
	"path/filepath"
	"strconv"
	"strings"
)

type mut struct {
	File   string `json:"file"`
	Offset int    `json:"offset"`
	Old    string `json:"old"`
	New    string `json:"new"`
	Line   int    `json:"line"`
	Kind   string `json:"kind"`
}

var swaps = map[token.Token][]token.Token{
	token.LSS: {token.LEQ, token.GTR}, token.LEQ: {token.LSS}, token.GTR: {token.GEQ, token.LSS}, token.GEQ: {token.GTR},
	token.EQL: {token.NEQ}, token.NEQ: {token.EQL},
	token.ADD: {token.SUB}, token.SUB: {token.ADD}, token.MUL: {token.QUO}, token.QUO: {token.MUL},
	token.LAND: {token.LOR}, token.LOR: {token.LAND},
}

func main() {
	root := os.Args[1]
	enc := json.NewEncoder(os.Stdout)
	filepath.Walk(root, func(path string, info os.FileInfo, err error) error {
		if err != nil || info.IsDir() || !strings.HasSuffix(path, ".go") || strings.HasSuffix(path, "_test.go") {
			return nil
		}
		rel, _ := filepath.Rel(root, path)
		if strings.HasPrefix(rel, "cmd/") || strings.HasPrefix(rel, ".") {
			return nil
		}
		fset := token.NewFileSet()
		f, err := parser.ParseFile(fset, path, nil, 0)
		if err != nil {
			return nil
		}
		src, _ := os.ReadFile(path)
		del := func(st ast.Stmt, kind string) {
			p, q := fset.Position(st.Pos()), fset.Position(st.End())
			if p.Offset < q.Offset && q.Offset <= len(src) {
				enc.Encode(mut{rel, p.Offset, "ARGS:" + strconv.Itoa(q.Offset-p.Offset), "", p.Line, kind})
			}
		}
		if os.Getenv("MUT_WRONGVAR") != "" {
			// the wrong one of two similar variables or fields: every use of a local variable or
			// parameter replaced by another one of the same function, every selected field by another
			// field selected on the same base in the same function (the compiler drops the ill-typed)
			for _, d := range f.Decls {
				fd, ok := d.(*ast.FuncDecl)
				if !ok || fd.Body == nil {
					continue
				}
				var names []string
				seen := map[string]bool{}
				fieldsOf := map[string][]string{}
				ast.Inspect(fd, func(n ast.Node) bool {
					switch x := n.(type) {
					case *ast.Ident:
						if x.Obj != nil && x.Obj.Kind == ast.Var && x.Name != "_" && !seen[x.Name] {
							seen[x.Name] = true
							names = append(names, x.Name)
						}
					case *ast.SelectorExpr:
						if b, ok := x.X.(*ast.Ident); ok && b.Obj != nil {
							have := false
							for _, s := range fieldsOf[b.Name] {
								if s == x.Sel.Name {
									have = true
								}
							}
							if !have {
								fieldsOf[b.Name] = append(fieldsOf[b.Name], x.Sel.Name)
							}
						}
					}
					return true
				})
				ast.Inspect(fd.Body, func(n ast.Node) bool {
					switch x := n.(type) {
					case *ast.AssignStmt:
						// left-hand sides are definitions or targets: leave them
						for _, r := range x.Rhs {
							ast.Inspect(r, func(m ast.Node) bool { return true })
						}
					case *ast.SelectorExpr:
						if b, ok := x.X.(*ast.Ident); ok && b.Obj != nil {
							for _, alt := range fieldsOf[b.Name] {
								if alt != x.Sel.Name {
									p := fset.Position(x.Sel.Pos())
									enc.Encode(mut{rel, p.Offset, x.Sel.Name, alt, p.Line, "wrongfield"})
								}
							}
						}
					case *ast.Ident:
						if x.Obj == nil || x.Obj.Kind != ast.Var || x.Obj.Pos() == x.Pos() {
							return true
						}
						for _, alt := range names {
							if alt != x.Name {
								p := fset.Position(x.Pos())
								enc.Encode(mut{rel, p.Offset, x.Name, alt, p.Line, "wrongvar"})
							}
						}
					}
					return true
				})
			}
			return nil
		}
		if os.Getenv("MUT_SIBLING") != "" {
			// a look-alike function or constructor for the one meant (copy-paste): the identifier of
			// a call replaced by each other member of its family
			groups := [][]string{
				{"Add", "Subtract"}, {"Multiply", "Divide"}, {"MultiplyBy", "DivideBy"}, {"IncrementBy", "DecrementBy"},
				{"KeepPositives", "KeepNegatives"}, {"Change", "ChangeRatio", "ChangePercent"},
				{"SnapshotsAsOpenings", "SnapshotsAsHighs", "SnapshotsAsLows", "SnapshotsAsClosings", "SnapshotsAsVolumes"},
				{"NewSmaWithPeriod", "NewEmaWithPeriod", "NewSmmaWithPeriod", "NewRmaWithPeriod", "NewWmaWithPeriod"},
				{"NewSma", "NewEma", "NewSmma", "NewRma"},
				{"NewMovingMaxWithPeriod", "NewMovingMinWithPeriod"}, {"NewMovingMax", "NewMovingMin"},
				{"Head", "Skip"}, {"First", "Last"}, {"Shift", "Skip"}, {"Abs", "Sqrt"}, {"Max", "Min"}, {"Pow", "Mod"},
				{"ActionsToAnnotations", "NormalizeActions", "DenormalizeActions"},
				{"Lock", "RLock"}, {"Unlock", "RUnlock"}, {"After", "Before"}, {"HasSuffix", "HasPrefix"}, {"TrimSuffix", "TrimPrefix"},
			}
			sib := map[string][]string{}
			for _, g := range groups {
				for _, a := range g {
					for _, b := range g {
						if a != b {
							sib[a] = append(sib[a], b)
						}
					}
				}
			}
			ast.Inspect(f, func(n ast.Node) bool {
				call, ok := n.(*ast.CallExpr)
				if !ok {
					return true
				}
				fun := call.Fun
				if ix, isIx := fun.(*ast.IndexExpr); isIx {
					fun = ix.X
				}
				var id *ast.Ident
				switch x := fun.(type) {
				case *ast.Ident:
					id = x
				case *ast.SelectorExpr:
					id = x.Sel
				}
				if id == nil {
					return true
				}
				for _, alt := range sib[id.Name] {
					p := fset.Position(id.Pos())
					enc.Encode(mut{rel, p.Offset, id.Name, alt, p.Line, "sibling"})
				}
				return true
			})
			return nil
		}
		ast.Inspect(f, func(n ast.Node) bool {
			if blk, ok := n.(*ast.BlockStmt); ok && os.Getenv("MUT_DELETE") != "" {
				for _, st := range blk.List {
					switch x := st.(type) {
					case *ast.ExprStmt:
						del(st, "del-call")
					case *ast.DeferStmt:
						del(st, "del-defer")
					case *ast.GoStmt:
						del(st, "del-go")
					case *ast.IncDecStmt:
						del(st, "del-incdec")
					case *ast.BranchStmt:
						del(st, "del-branch")
					case *ast.SendStmt:
						del(st, "del-send")
					case *ast.AssignStmt:
						if x.Tok != token.DEFINE {
							del(st, "del-assign")
						}
					case *ast.IfStmt:
						// an error check or guard dropped with its body
						if x.Else == nil {
							del(st, "del-if")
						}
					}
				}
			}
			switch x := n.(type) {
			case *ast.BinaryExpr:
				for _, to := range swaps[x.Op] {
					// string concatenation is not arithmetic
					if lit, ok := x.X.(*ast.BasicLit); ok && lit.Kind == token.STRING {
						continue
					}
					if lit, ok := x.Y.(*ast.BasicLit); ok && lit.Kind == token.STRING {
						continue
					}
					p := fset.Position(x.OpPos)
					enc.Encode(mut{rel, p.Offset, x.Op.String(), to.String(), p.Line, "op"})
				}
			case *ast.BasicLit:
				if x.Kind == token.FLOAT && os.Getenv("MUT_FLOAT") != "" {
					if v, err := strconv.ParseFloat(x.Value, 64); err == nil {
						p := fset.Position(x.Pos())
						enc.Encode(mut{rel, p.Offset, x.Value, strconv.FormatFloat(v*2, 'g', -1, 64) + ".0", p.Line, "float*2"})
						enc.Encode(mut{rel, p.Offset, x.Value, strconv.FormatFloat(v+1, 'g', -1, 64) + ".0", p.Line, "float+1"})
					}
				}
				if x.Kind == token.INT {
					v, err := strconv.ParseInt(x.Value, 10, 64)
					if err != nil || v > 400 {
						return true
					}
					p := fset.Position(x.Pos())
					enc.Encode(mut{rel, p.Offset, x.Value, fmt.Sprint(v + 1), p.Line, "int+1"})
					if v > 0 {
						enc.Encode(mut{rel, p.Offset, x.Value, fmt.Sprint(v - 1), p.Line, "int-1"})
					}
				}
			case *ast.IncDecStmt:
				p := fset.Position(x.TokPos)
				to := "--"
				if x.Tok == token.DEC {
					to = "++"
				}
				enc.Encode(mut{rel, p.Offset, x.Tok.String(), to, p.Line, "incdec"})
			case *ast.CallExpr:
				// swap the first two arguments when they have the same syntactic form (identifiers)
				if len(x.Args) >= 2 {
					a, okA := x.Args[0].(*ast.Ident)
					b, okB := x.Args[1].(*ast.Ident)
					if okA && okB && a.Name != b.Name {
						p := fset.Position(a.Pos())
						q := fset.Position(b.End())
						old := a.Name + strings.Repeat(" ", 0)
						_ = old
						enc.Encode(mut{rel, p.Offset, "ARGS:" + strconv.Itoa(q.Offset-p.Offset), b.Name + ", " + a.Name, p.Line, "argswap"})
					}
				}
			}
			return true
		})
		return nil
	})
}
