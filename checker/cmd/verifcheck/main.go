package main

import (
	"encoding/json"
	"fmt"
	"os"
	"runtime/debug"
	"strings"

	"verif/checker/internal/load"
	"verif/checker/internal/report"
	"verif/checker/internal/rules"
	"verif/checker/internal/shape"
	"verif/checker/internal/sym"
)

func usage() {
	fmt.Fprintln(os.Stderr, "usage: verifcheck check <ID> [--tier quick|thorough] [--repo DIR] | dump <pkg> [<Type>] <Func> [--inline] | replay <file> | selftest")
	os.Exit(2)
}

func main() {
	if len(os.Args) < 2 {
		usage()
	}
	switch os.Args[1] {
	case "dump":
		cmdDump(os.Args[2:])
	case "sweep":
		cmdSweep(os.Args[2:])
	case "terms":
		cmdTerms(os.Args[2:])
	case "check":
		os.Exit(cmdCheck(os.Args[2:]))
	case "replay":
		os.Exit(cmdReplay(os.Args[2:]))
	default:
		usage()
	}
}

func cmdDump(args []string) {
	repo := "/repo"
	mode := shape.ModeContracts
	var pos []string
	for i := 0; i < len(args); i++ {
		switch args[i] {
		case "--inline":
			mode = shape.ModeInline
		case "--repo":
			i++
			repo = args[i]
		default:
			pos = append(pos, args[i])
		}
	}
	p, err := load.Load(repo, false)
	if err != nil {
		fmt.Fprintln(os.Stderr, "CHECK-BROKEN:", err)
		os.Exit(2)
	}
	var fi *load.FuncInfo
	switch len(pos) {
	case 2:
		fi = p.Func(pos[0], pos[1])
	case 3:
		fi = p.Method(pos[0], pos[1], pos[2])
	default:
		usage()
	}
	if fi == nil {
		fmt.Fprintln(os.Stderr, "not found:", strings.Join(pos, " "))
		os.Exit(2)
	}
	it := shape.NewInterp(p, mode)
	for _, r := range it.AnalyzeRoot(fi) {
		shape.Dump(os.Stdout, p, r)
	}
}

func cmdSweep(args []string) {
	repo := "/repo"
	mode := shape.ModeContracts
	for i := 0; i < len(args); i++ {
		switch args[i] {
		case "--inline":
			mode = shape.ModeInline
		case "--repo":
			i++
			repo = args[i]
		}
	}
	p, err := load.Load(repo, false)
	if err != nil {
		fmt.Fprintln(os.Stderr, "CHECK-BROKEN:", err)
		os.Exit(2)
	}
	roots := shape.PipelineRoots(p)
	it := shape.NewInterp(p, mode)
	for _, fi := range roots {
		rs := it.AnalyzeRoot(fi)
		for _, r := range rs {
			fmt.Printf("%-60s paths=%d streams=%d stages=%d ret=%s\n", r.RootName, len(rs), len(r.Streams), len(r.Stages), shape.RetSummary(r))
			for _, u := range r.Undecided {
				fmt.Printf("    UNDECIDED %s: %s\n", p.Pos(u.Pos), u.Why)
			}
		}
	}
}

func cmdCheck(args []string) (code int) {
	repo, verif, tier := "/repo", "/verif", "quick"
	if t := os.Getenv("VERIF_TIER"); t == "quick" || t == "thorough" {
		tier = t
	}
	var ids []string
	for i := 0; i < len(args); i++ {
		switch args[i] {
		case "--tier":
			i++
			tier = args[i]
		case "--repo":
			i++
			repo = args[i]
		case "--verif":
			i++
			verif = args[i]
		default:
			ids = append(ids, args[i])
		}
	}
	if len(ids) != 1 {
		usage()
	}
	id := ids[0]
	run := report.NewRun(id, tier)
	defer func() {
		if r := recover(); r != nil {
			fmt.Printf("CHECK-BROKEN property=%s: internal panic: %v\n", id, r)
			debug.PrintStack()
			code = 2
		}
	}()
	check, ok := rules.Checks[id]
	if !ok {
		fmt.Fprintln(os.Stderr, "no check for", id)
		return 2
	}
	p, err := load.Load(repo, check.NeedSSA)
	if err != nil {
		run.Break(err.Error())
		return run.Finish(verif)
	}
	run.Count("packages", len(p.Pkgs))
	run.Count("files", p.Files)
	run.Count("functions", len(p.Decls))
	c := rules.NewCtx(p, tier, run)
	check.Fn(c)
	return run.Finish(verif)
}

func cmdTerms(args []string) {
	repo := "/repo"
	filter := ""
	for i := 0; i < len(args); i++ {
		switch args[i] {
		case "--repo":
			i++
			repo = args[i]
		default:
			filter = args[i]
		}
	}
	p, err := load.Load(repo, false)
	if err != nil {
		fmt.Fprintln(os.Stderr, "CHECK-BROKEN:", err)
		os.Exit(2)
	}
	it := shape.NewInterp(p, shape.ModeContracts)
	for _, fi := range shape.PipelineRoots(p) {
		name := load.FuncName(fi.Fn)
		if fi.Fn.Name() != "Compute" || !strings.Contains(name, filter) {
			continue
		}
		for _, r := range it.AnalyzeRoot(fi) {
			t := shape.NewTerms(p, r)
			for i, s := range shape.StreamsOf(r.Ret) {
				fmt.Printf("%s out%d [%s]\n    %s\n", name, i, strings.Join(r.PathConds, ";"), sym.CanonString(t.Of(s)))
			}
			for _, o := range t.Opaque {
				fmt.Printf("    opaque: %s\n", o)
			}
		}
	}
}

// cmdReplay re-evaluates the obligation recorded in a replay file against the current tree.
func cmdReplay(args []string) int {
	repo := "/repo"
	var path string
	for i := 0; i < len(args); i++ {
		if args[i] == "--repo" {
			i++
			repo = args[i]
		} else {
			path = args[i]
		}
	}
	if path == "" {
		usage()
	}
	b, err := os.ReadFile(path)
	if err != nil {
		fmt.Fprintln(os.Stderr, "cannot read", path, err)
		return 2
	}
	var f report.Finding
	if err := json.Unmarshal(b, &f); err != nil {
		fmt.Fprintln(os.Stderr, "not a replay file:", err)
		return 2
	}
	check, ok := rules.Checks[f.Property]
	if !ok {
		fmt.Fprintln(os.Stderr, "no check for", f.Property)
		return 2
	}
	p, err := load.Load(repo, check.NeedSSA)
	if err != nil {
		fmt.Println("CHECK-BROKEN:", err)
		return 2
	}
	run := report.NewRun(f.Property, "quick")
	check.Fn(rules.NewCtx(p, "quick", run))
	fmt.Printf("replaying %s  rule=%s site=%s detail=%s\n", f.Property, f.Rule, f.Site, f.Detail)
	for _, g := range run.Findings {
		if g.Rule == f.Rule && g.Site == f.Site && g.Detail == f.Detail {
			fmt.Printf("REPRODUCED at %s\n  %s\n", g.Pos, g.Message)
			for _, d := range g.Derivation {
				fmt.Println("   ", d)
			}
			if len(g.Witness) > 0 {
				fmt.Println("  witness:", g.Witness)
			}
			return 1
		}
	}
	fmt.Println("not reproduced on the current tree (the obligation is discharged or the construct is gone)")
	return 0
}
