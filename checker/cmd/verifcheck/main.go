package main

import (
	"encoding/json"
	"fmt"
	"go/ast"
	"go/types"
	"os"
	"os/exec"
	"path/filepath"
	"runtime/debug"
	"sort"
	"strings"
	"sync"

	"verif/checker/internal/dtab"
	"verif/checker/internal/load"
	"verif/checker/internal/report"
	"verif/checker/internal/rules"
	"verif/checker/internal/shape"
	"verif/checker/internal/sym"
)

func usage() {
	fmt.Fprintln(os.Stderr, "usage: verifcheck check <ID> [--tier quick|thorough] [--repo DIR] | dump <pkg> [<Type>] <Func> [--inline] | replay <file> | selftest")
	os.Exit(2)
}

func main() {
	if len(os.Args) < 2 {
		usage()
	}
	switch os.Args[1] {
	case "dump":
		cmdDump(os.Args[2:])
	case "sweep":
		cmdSweep(os.Args[2:])
	case "machine":
		cmdMachine(os.Args[2:])
	case "gen-params":
		cmdGenParams()
	case "terms":
		cmdTerms(os.Args[2:])
	case "check":
		os.Exit(cmdCheck(os.Args[2:]))
	case "replay":
		os.Exit(cmdReplay(os.Args[2:]))
	default:
		usage()
	}
}

func cmdDump(args []string) {
	repo := "/repo"
	mode := shape.ModeContracts
	var pos []string
	for i := 0; i < len(args); i++ {
		switch args[i] {
		case "--inline":
			mode = shape.ModeInline
		case "--repo":
			i++
			repo = args[i]
		default:
			pos = append(pos, args[i])
		}
	}
	p, err := load.Load(repo, false)
	if err != nil {
		fmt.Fprintln(os.Stderr, "CHECK-BROKEN:", err)
		os.Exit(2)
	}
	var fi *load.FuncInfo
	switch len(pos) {
	case 2:
		fi = p.Func(pos[0], pos[1])
	case 3:
		fi = p.Method(pos[0], pos[1], pos[2])
	default:
		usage()
	}
	if fi == nil {
		fmt.Fprintln(os.Stderr, "not found:", strings.Join(pos, " "))
		os.Exit(2)
	}
	it := shape.NewInterp(p, mode)
	for _, r := range it.AnalyzeRoot(fi) {
		shape.Dump(os.Stdout, p, r)
	}
}

func cmdSweep(args []string) {
	repo := "/repo"
	mode := shape.ModeContracts
	for i := 0; i < len(args); i++ {
		switch args[i] {
		case "--inline":
			mode = shape.ModeInline
		case "--repo":
			i++
			repo = args[i]
		}
	}
	p, err := load.Load(repo, false)
	if err != nil {
		fmt.Fprintln(os.Stderr, "CHECK-BROKEN:", err)
		os.Exit(2)
	}
	roots := shape.PipelineRoots(p)
	it := shape.NewInterp(p, mode)
	for _, fi := range roots {
		rs := it.AnalyzeRoot(fi)
		for _, r := range rs {
			fmt.Printf("%-60s paths=%d streams=%d stages=%d ret=%s\n", r.RootName, len(rs), len(r.Streams), len(r.Stages), shape.RetSummary(r))
			for _, u := range r.Undecided {
				fmt.Printf("    UNDECIDED %s: %s\n", p.Pos(u.Pos), u.Why)
			}
		}
	}
}

func cmdCheck(args []string) (code int) {
	repo, verif, tier := "/repo", "/verif", "quick"
	if t := os.Getenv("VERIF_TIER"); t == "quick" || t == "thorough" {
		tier = t
	}
	var ids []string
	for i := 0; i < len(args); i++ {
		switch args[i] {
		case "--tier":
			i++
			tier = args[i]
		case "--repo":
			i++
			repo = args[i]
		case "--verif":
			i++
			verif = args[i]
		default:
			ids = append(ids, args[i])
		}
	}
	if len(ids) != 1 {
		usage()
	}
	id := ids[0]
	run := report.NewRun(id, tier)
	defer func() {
		if r := recover(); r != nil {
			fmt.Printf("CHECK-BROKEN property=%s: internal panic: %v\n", id, r)
			debug.PrintStack()
			code = 2
		}
	}()
	check, ok := rules.Checks[id]
	if !ok {
		fmt.Fprintln(os.Stderr, "no check for", id)
		return 2
	}
	p, err := load.Load(repo, check.NeedSSA)
	if err != nil {
		run.Break(err.Error())
		return run.Finish(verif)
	}
	run.Count("packages", len(p.Pkgs))
	run.Count("files", p.Files)
	run.Count("functions", len(p.Decls))
	c := rules.NewCtx(p, tier, run)
	if check.NeedSSA {
		c.PrepareSSA() // SSA is built from the untouched syntax
	}
	load.Normalize(p)
	rules.CrossCheck = tier == "thorough"
	check.Fn(c)
	run.Trusted = append(run.Trusted, "internal/load.Normalize: equivalence-preserving statement rewrites applied to the type-checked syntax before analysis (if-with-init, range over an integer, tagless switch, continue guards, trailing if, return as break in a final loop)")
	if tier == "thorough" {
		if n := rules.CrossChecks(); n > 0 {
			run.Count("entailments_rechecked_by_evaluation", n)
		}
		rules.CrossCheck = false
		selfTest(id, repo, verif, run)
	}
	return run.Finish(verif)
}

// selfTest (thorough tier), both ways, on scratch copies of the CURRENT tree outside /repo and
// /verif (removed at once):
//   - every seeded change kept under <verif>/seeded that this property's check is recorded to
//     report is applied and the check is run on the copy: a check that stays silent is broken;
//   - every behaviour-preserving refactoring kept under <verif>/benign is applied and the check
//     must stay silent: a report there is a false alarm of the machinery and breaks the check.
//
// Patches that no longer apply to the tree are skipped and counted. Each copy is analysed by a
// child process of this same binary (quick tier), a few at a time.
func selfTest(id, repo, verif string, run *report.Run) {
	type job struct {
		name, patch string
		seeded      bool
	}
	var jobs []job
	metas, _ := filepath.Glob(filepath.Join(verif, "seeded", "*", "meta.json"))
	sort.Strings(metas)
	for _, mp := range metas {
		b, err := os.ReadFile(mp)
		if err != nil {
			continue
		}
		var meta struct {
			CaughtBy []string `json:"caught_by"`
		}
		if json.Unmarshal(b, &meta) != nil {
			continue
		}
		for _, cb := range meta.CaughtBy {
			if cb == id {
				jobs = append(jobs, job{filepath.Base(filepath.Dir(mp)), filepath.Join(filepath.Dir(mp), "patch.diff"), true})
			}
		}
	}
	patches, _ := filepath.Glob(filepath.Join(verif, "benign", "*", "patch.diff"))
	sort.Strings(patches)
	for _, p := range patches {
		jobs = append(jobs, job{filepath.Base(filepath.Dir(p)), p, false})
	}
	type outcome struct {
		skipped          string
		err              string
		reported, broken bool
		first            string
	}
	results := make([]outcome, len(jobs))
	self, err := os.Executable()
	if err != nil {
		run.Break("self-test: cannot locate the checker binary: " + err.Error())
		return
	}
	sem := make(chan struct{}, 6)
	var wg sync.WaitGroup
	for i, j := range jobs {
		wg.Add(1)
		go func(i int, j job) {
			defer wg.Done()
			sem <- struct{}{}
			defer func() { <-sem }()
			tmp, err := os.MkdirTemp("", "verif-selftest-")
			if err != nil {
				results[i].err = err.Error()
				return
			}
			defer os.RemoveAll(tmp)
			src, vdir := filepath.Join(tmp, "src"), filepath.Join(tmp, "verif")
			if err := os.MkdirAll(vdir, 0o755); err != nil {
				results[i].err = err.Error()
				return
			}
			if err := copyTree(repo, src); err != nil {
				results[i].err = err.Error()
				return
			}
			if kf, err := os.ReadFile(filepath.Join(verif, "known_findings.json")); err == nil {
				_ = os.WriteFile(filepath.Join(vdir, "known_findings.json"), kf, 0o644)
			}
			cmd := exec.Command("git", "apply", "--whitespace=nowarn", j.patch)
			cmd.Dir = src
			cmd.Env = append(os.Environ(), "GIT_DIR=/nonexistent", "GIT_CEILING_DIRECTORIES="+tmp)
			if out, err := cmd.CombinedOutput(); err != nil {
				cmd2 := exec.Command("patch", "-p1", "-s", "-i", j.patch)
				cmd2.Dir = src
				if out2, err2 := cmd2.CombinedOutput(); err2 != nil {
					results[i].skipped = strings.TrimSpace(string(out)) + " " + strings.TrimSpace(string(out2))
					return
				}
			}
			child := exec.Command(self, "check", id, "--tier", "quick", "--repo", src, "--verif", vdir)
			child.Env = append(os.Environ(), "VERIF_TIER=quick")
			out, _ := child.CombinedOutput()
			for _, ln := range strings.Split(string(out), "\n") {
				switch {
				case strings.HasPrefix(ln, "VIOLATION "):
					results[i].reported = true
				case strings.HasPrefix(ln, "CHECK-BROKEN"):
					results[i].broken = true
					if strings.Contains(ln, "type errors") || strings.Contains(ln, "cannot load") {
						results[i].skipped = "does not type-check on the current tree"
					}
					if results[i].first == "" {
						results[i].first = strings.TrimSpace(ln)
					}
				case strings.HasPrefix(ln, "  ") && results[i].first == "":
					results[i].first = strings.TrimSpace(ln)
				}
			}
		}(i, j)
	}
	wg.Wait()
	for i, j := range jobs {
		r := results[i]
		kind := "refactoring"
		if j.seeded {
			kind = "seeded change"
		}
		switch {
		case r.err != "":
			run.Break("self-test: " + r.err)
		case r.skipped != "":
			run.Note("self-test: " + kind + " " + j.name + " does not apply to the current tree, skipped (" + short(r.skipped, 120) + ")")
			run.Count("selftest_skipped", 1)
		case j.seeded:
			run.Count("selftest_seeds", 1)
			run.Oblige(r.reported || r.broken)
			if !r.reported && !r.broken {
				run.Break("self-test: the check is silent on the seeded change " + j.name + " which it is recorded to report")
			} else {
				run.Note("self-test: seeded change " + j.name + " is reported (" + short(r.first, 160) + ")")
			}
		default:
			run.Count("selftest_refactorings", 1)
			run.Oblige(!r.reported && !r.broken)
			if r.reported || r.broken {
				run.Break("self-test: false alarm on the behaviour-preserving refactoring " + j.name + " (" + short(r.first, 200) + ")")
			}
		}
	}
}

func short(s string, n int) string {
	if len(s) <= n {
		return s
	}
	return s[:n] + "…"
}

func copyTree(src, dst string) error {
	if err := os.MkdirAll(dst, 0o755); err != nil {
		return err
	}
	return filepath.Walk(src, func(path string, info os.FileInfo, err error) error {
		if err != nil {
			return err
		}
		rel, _ := filepath.Rel(src, path)
		if rel == "." {
			return nil
		}
		if info.IsDir() {
			if info.Name() == ".git" {
				return filepath.SkipDir
			}
			return os.MkdirAll(filepath.Join(dst, rel), 0o755)
		}
		if !info.Mode().IsRegular() {
			return nil
		}
		b, err := os.ReadFile(path)
		if err != nil {
			return err
		}
		return os.WriteFile(filepath.Join(dst, rel), b, 0o644)
	})
}

func cmdTerms(args []string) {
	repo := "/repo"
	filter := ""
	for i := 0; i < len(args); i++ {
		switch args[i] {
		case "--repo":
			i++
			repo = args[i]
		default:
			filter = args[i]
		}
	}
	p, err := load.Load(repo, false)
	if err != nil {
		fmt.Fprintln(os.Stderr, "CHECK-BROKEN:", err)
		os.Exit(2)
	}
	load.Normalize(p)
	it := shape.NewInterp(p, shape.ModeContracts)
	for _, fi := range shape.PipelineRoots(p) {
		name := load.FuncName(fi.Fn)
		if fi.Fn.Name() != "Compute" || !strings.Contains(name, filter) {
			continue
		}
		for _, r := range it.AnalyzeRoot(fi) {
			t := shape.NewTerms(p, r)
			for i, s := range shape.StreamsOf(r.Ret) {
				fmt.Printf("%s out%d [%s]\n    %s\n", name, i, strings.Join(r.PathConds, ";"), sym.CanonString(t.Of(s)))
			}
			for _, o := range t.Opaque {
				fmt.Printf("    opaque: %s\n", o)
			}
		}
	}
}

// cmdReplay re-evaluates the obligation recorded in a replay file against the current tree.
func cmdReplay(args []string) int {
	repo := "/repo"
	var path string
	for i := 0; i < len(args); i++ {
		if args[i] == "--repo" {
			i++
			repo = args[i]
		} else {
			path = args[i]
		}
	}
	if path == "" {
		usage()
	}
	b, err := os.ReadFile(path)
	if err != nil {
		fmt.Fprintln(os.Stderr, "cannot read", path, err)
		return 2
	}
	var f report.Finding
	if err := json.Unmarshal(b, &f); err != nil {
		fmt.Fprintln(os.Stderr, "not a replay file:", err)
		return 2
	}
	check, ok := rules.Checks[f.Property]
	if !ok {
		fmt.Fprintln(os.Stderr, "no check for", f.Property)
		return 2
	}
	p, err := load.Load(repo, check.NeedSSA)
	if err != nil {
		fmt.Println("CHECK-BROKEN:", err)
		return 2
	}
	run := report.NewRun(f.Property, "quick")
	cr := rules.NewCtx(p, "quick", run)
	if check.NeedSSA {
		cr.PrepareSSA()
	}
	load.Normalize(p)
	check.Fn(cr)
	fmt.Printf("replaying %s  rule=%s site=%s detail=%s\n", f.Property, f.Rule, f.Site, f.Detail)
	for _, g := range run.Findings {
		if g.Rule == f.Rule && g.Site == f.Site && g.Detail == f.Detail {
			fmt.Printf("REPRODUCED at %s\n  %s\n", g.Pos, g.Message)
			for _, d := range g.Derivation {
				fmt.Println("   ", d)
			}
			if len(g.Witness) > 0 {
				fmt.Println("  witness:", g.Witness)
			}
			return 1
		}
	}
	fmt.Println("not reproduced on the current tree (the obligation is discharged or the construct is gone)")
	return 0
}

// cmdMachine prints the guarded commands of the closures of a method (developer aid).
func cmdMachine(args []string) {
	if len(args) < 3 {
		usage()
	}
	p, err := load.Load("/repo", false)
	if err != nil {
		fmt.Fprintln(os.Stderr, err)
		os.Exit(2)
	}
	load.Normalize(p)
	fi := p.Method(args[0], args[1], args[2])
	if fi == nil {
		fmt.Fprintln(os.Stderr, "not found")
		os.Exit(2)
	}
	show := func(m *dtab.Machine, where string) {
		fmt.Printf("%s params %v state %v reads %v unsupported %v\n", where, m.Params, m.State, m.Reads, m.Unsupported)
		for i, pa := range m.Paths {
			var cs []string
			for _, c := range pa.Conds {
				cs = append(cs, sym.String(c))
			}
			fmt.Printf("  path %d: if %s\n", i, strings.Join(cs, " && "))
			var ks []string
			for k := range pa.Updates {
				ks = append(ks, k)
			}
			sort.Strings(ks)
			for _, k := range ks {
				fmt.Printf("      %s := %s\n", k, sym.String(pa.Updates[k]))
			}
			for _, r := range pa.Ret {
				fmt.Printf("      return %s\n", sym.String(r))
			}
		}
	}
	if len(args) > 3 && args[3] == "--decl" {
		show(dtab.FromFuncDecl(fi.Pkg.TypesInfo, fi.Decl), "function")
		return
	}
	ast.Inspect(fi.Decl.Body, func(n ast.Node) bool {
		fl, ok := n.(*ast.FuncLit)
		if !ok {
			return true
		}
		m := dtab.FromFuncLit(fi.Pkg.TypesInfo, fl)
		fmt.Printf("closure at %s params %v state %v reads %v unsupported %v\n", p.Pos(fl.Pos()), m.Params, m.State, m.Reads, m.Unsupported)
		for i, pa := range m.Paths {
			var cs []string
			for _, c := range pa.Conds {
				cs = append(cs, sym.String(c))
			}
			fmt.Printf("  path %d: if %s\n", i, strings.Join(cs, " && "))
			var ks []string
			for k := range pa.Updates {
				ks = append(ks, k)
			}
			sort.Strings(ks)
			for _, k := range ks {
				fmt.Printf("      %s := %s\n", k, sym.String(pa.Updates[k]))
			}
			for _, r := range pa.Ret {
				fmt.Printf("      return %s\n", sym.String(r))
			}
			for _, e := range pa.Effects {
				fmt.Printf("      effect %s\n", e)
			}
		}
		return false
	})
}

// cmdGenParams prints the parameter names of the indicator Compute methods and the helper
// functions of the tree as a Go table (developer aid: the frozen table rules.pinnedParams).
func cmdGenParams() {
	p, err := load.Load("/repo", false)
	if err != nil {
		fmt.Fprintln(os.Stderr, err)
		os.Exit(2)
	}
	var lines []string
	for fn, fi := range p.Decls {
		rel := load.RelPkg(fi.Pkg.PkgPath)
		key := ""
		switch {
		case fi.Decl.Recv != nil && fn.Name() == "Compute" && (rel == "trend" || rel == "momentum" || rel == "volatility" || rel == "volume"):
			key = strings.TrimSuffix(strings.Replace(load.FuncName(fn), ".(*", ".", 1), ").Compute")
		case fi.Decl.Recv == nil && rel == "helper" && fn.Exported():
			key = "helper." + fn.Name()
		default:
			continue
		}
		sig := fn.Type().(*types.Signature)
		var names []string
		for i := 0; i < sig.Params().Len(); i++ {
			names = append(names, fmt.Sprintf("%q", sig.Params().At(i).Name()))
		}
		lines = append(lines, fmt.Sprintf("\t%q: {%s},", key, strings.Join(names, ", ")))
	}
	sort.Strings(lines)
	fmt.Println("package rules\n\n// pinnedParams: the parameter names of the pinned source, by position. The frozen tables (formula\n// specifications, range claims, helper models, roles) are written with these names; a parameter\n// that was renamed is found by its position.\nvar pinnedParams = map[string][]string{")
	fmt.Println(strings.Join(lines, "\n"))
	fmt.Println("}")
}
